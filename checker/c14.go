package main

// C14 — table catalogue: unique names, never-reused ids, empty when (re)created.
// C15 — at most one follower node holds a table's replication lease.

import (
	"go/constant"
	"go/token"
	"go/types"
	"strings"

	"golang.org/x/tools/go/ssa"
)

func init() {
	register("C14", "table catalogue: CAS-create, growing ids, fresh directory, reconciliation sets, isolation", checkC14)
	register("C15", "at most one lease holder: gated CAS lease write, return only your own", checkC15)
}

const tablePath = modPath + "/storage/table"

// unreachableUnlessAny: cut every edge on which one of the predicates holds; the target must be
// unreachable from start.
func unreachableUnlessAny(w *World, ob *Ob, ctx *ExprCtx, start Loc, isTarget func(ssa.Instruction) bool, key, msg string, preds ...func(Lit) bool) bool {
	wk := &Walk{Target: isTarget, EdgeOK: func(b *ssa.BasicBlock, k int) bool {
		for _, l := range ctx.EdgeLits(b, k) {
			for _, p := range preds {
				if p(l) {
					return false
				}
			}
		}
		return true
	}}
	if p := wk.Find(start); p != nil {
		ob.Violate(key, instrPos(p.Hit), msg, w.PathString(p)...)
		return false
	}
	return true
}

func isStoreCall(in ssa.Instruction, method string) bool {
	c := plainCall(in)
	if c == nil || !c.IsInvoke() || c.Method.Name() != method {
		return false
	}
	n, ok := c.Value.Type().(*types.Named)
	return ok && n.Obj().Name() == "store" && n.Obj().Pkg() != nil && n.Obj().Pkg().Path() == tablePath
}

func checkC14(w *World, r *Report) {
	r.Decides = "C14 is decided in its structural part only: (a) create answers ErrTableExists on the exists edge, writes the record with version 0 (compare-and-set create), maps a version mismatch to ErrTableExists and takes the shard id from the id sequence; (b) the id sequence writes current+1 with the version it read and returns that value together with the write's error, and every other assignment of a table's ClusterID/RecoverID derives from it; (c) the state-machine directory name is built from both the table name and the shard id; (d) delete maps 'not stored' to ErrTableNotFound and deletes with the version it read; (e) reconciliation starts exactly catalogued-not-running ids above the reserved range and stops exactly running-not-catalogued ids above it; (f) every read and proposal of an ActiveTable targets its own shard id and session; (g) a record for an externally supplied name is written only after the name passed a path-separator test (names with '/' leave the catalogue's key space). (k) the listing hands out every stored record; (l) after the load Restore goes on only with the record it re-read; delete reports success only on the nil edge of the versioned delete."
	r.NotDecided = []string{"races between nodes beyond the compare-and-set (reduced to C13.a)", "emptiness of a recreated table beyond the fresh directory"}
	r.Assume = []string{"C13: the metadata store is a compare-and-set map whose versions are never 0"}
	c14Create(w, r)
	c14Listing(w, r)
	c14KeyShape(w, r)
	c14RestoreRecord(w, r)
	c14Seq(w, r)
	c14Dir(w, r, "C14.c", "c-fresh-directory")
	c14Delete(w, r)
	c14Diff(w, r)
	c14Isolation(w, r)
	c14KeySpace(w, r)
	if mt := metaType(w); mt != nil {
		c13Snapshot(w, r, mt, "C14.h", "h-catalogue-snapshot-replaces")
		c13StoreOps(w, r, "C14.j", "j-store-operations-unconditional")
		c13UpdateScope(w, r, "C14.m", "m-catalogue-update-own-key")
	}
	c05Reconcile(w, r, "C14.i", "i-follower-catalogue-follows")
}

func c14Create(w *World, r *Report) {
	ob := r.Ob("C14.a", "a-cas-create", "createTable: the record write is unreachable over the edge exists==true, which returns ErrTableExists; the write's version argument is the constant 0; the edge errors.Is(err, ErrVersionMismatch) returns ErrTableExists; the stored ClusterID is the id-sequence function's result; CreateTable starts the shard with the created record's id under the manager's write lock", "without version 0 a racing creation overwrites the other's record: two tables share a name or one loses its id")
	fn := w.Func("storage/table", "Manager.createTable")
	if fn == nil {
		ob.Undecided("anchor", "Manager.createTable not found")
		return
	}
	ctx := &ExprCtx{}
	isWrite := func(in ssa.Instruction) bool {
		c := plainCall(in)
		if c == nil {
			return false
		}
		if isStoreCall(in, "Set") {
			return true
		}
		cal := StaticCallee(c)
		return cal != nil && cal.Name() == "setTableVersion"
	}
	var write ssa.Instruction
	eachInstr(fn, func(in ssa.Instruction) {
		if isWrite(in) {
			write = in
		}
	})
	if write == nil {
		ob.Violate("no-write", fn.Pos(), "createTable does not write the record")
		return
	}
	ob.Site(write.Pos(), "record write in createTable")
	// version 0
	c := plainCall(write)
	ver := c.Args[len(c.Args)-1]
	if k, ok := ver.(*ssa.Const); !ok || k.Value == nil || constant.Sign(constant.ToInt(k.Value)) != 0 {
		ob.Violate("create-version", write.Pos(), "the new record is written with version `"+Expr(ver)+"`, not 0: the write overwrites a record created concurrently")
	}
	// exists edge
	existsTrue := func(l Lit) bool { return l.Kind == "bool" && l.Neg && strings.Contains(l.A, ").Exists(") }
	unreachableUnlessAny(w, ob, ctx, entry(fn), func(x ssa.Instruction) bool { return x == write }, "create-without-exists-test", "the record can be written without the name having been found absent", existsTrue)
	for _, b := range fn.Blocks {
		for k := range b.Succs {
			for _, l := range ctx.EdgeLits(b, k) {
				isExists := l.Kind == "bool" && !l.Neg && strings.Contains(l.A, ").Exists(")
				isMismatch := l.Kind == "eq" && !l.Neg && strings.Contains(l.B, "ErrVersionMismatch")
				if !isExists && !isMismatch {
					continue
				}
				ob.Site(blockPos(b.Succs[k]), "createTable edge "+l.String())
				for _, in := range (&Walk{}).ReachableInstrs(Loc{b.Succs[k], 0}) {
					if ret, ok := in.(*ssa.Return); ok {
						if e := Expr(retVal(ret, 1)); !strings.HasSuffix(e, ".ErrTableExists") {
							ob.Violate("create-exists-error", ret.Pos(), "on the edge `"+l.String()+"` createTable returns `"+e+"`, not ErrTableExists")
						}
					}
				}
			}
		}
	}
	// id from the sequence
	eachInstr(fn, func(in ssa.Instruction) {
		st, ok := in.(*ssa.Store)
		if !ok {
			return
		}
		fa, ok := st.Addr.(*ssa.FieldAddr)
		if !ok || fieldAddrName(fa) != "ClusterID" || !typeIs(fa.X.Type(), tablePath, "Table") {
			return
		}
		e := Expr(st.Val)
		ob.Site(in.Pos(), "created record ClusterID = "+e)
		if !strings.Contains(e, "incAndGetIDSeq(") || !strings.HasSuffix(e, "#0") {
			ob.Violate("create-id-source", in.Pos(), "the created table gets id `"+e+"`, not the id sequence's result")
		}
	})
	// CreateTable: lock + start with created id
	if ct := w.Func("storage/table", "Manager.CreateTable"); ct != nil {
		okStart := false
		eachInstr(ct, func(in ssa.Instruction) {
			if c := plainCall(in); c != nil && StaticCallee(c) != nil && StaticCallee(c).Name() == "startTable" {
				e := Expr(c.Args[2])
				ob.Site(in.Pos(), "CreateTable starts shard "+e)
				if strings.Contains(e, "createTable(") && strings.HasSuffix(e, ".ClusterID") {
					okStart = true
				}
			}
		})
		if !okStart {
			ob.Violate("create-start-id", ct.Pos(), "CreateTable does not start the shard of the record it created")
		}
		isLock := func(in ssa.Instruction) bool { return isCallTo(in, "(*sync.RWMutex).Lock") }
		if p := (&Walk{Barrier: isLock, Target: func(x ssa.Instruction) bool {
			c := plainCall(x)
			return c != nil && StaticCallee(c) == fn
		}}).Find(entry(ct)); p != nil {
			ob.Violate("create-unlocked", ct.Pos(), "CreateTable calls createTable without holding the manager's write lock")
		}
	}
	ob.NeedFloor(4)
}

func c14Seq(w *World, r *Report) {
	ob := r.Ob("C14.b", "b-ids-only-grow", "id sequence: the value written is (parsed current value)+1, written with the version of the pair that was read (0 only for the synthetic initial pair), and the function returns that same value together with the write's error; every store to Table.ClusterID / RecoverID outside createTable derives from the id sequence or is the constant 0", "an id written without the compare-and-set, or returned despite a failed write, can be handed out twice; a reused id resurrects the directory of a deleted table")
	fn := w.Func("storage/table", "Manager.incAndGetIDSeq")
	if fn == nil {
		ob.Undecided("anchor", "id sequence function not found")
		return
	}
	var set ssa.Instruction
	var get ssa.Value
	nSet, nGet := 0, 0
	eachInstr(fn, func(in ssa.Instruction) {
		if isStoreCall(in, "Set") {
			nSet++
			if set == nil {
				set = in
			}
		}
		if isStoreCall(in, "Get") {
			nGet++
			get = in.(ssa.Value)
		}
	})
	if set == nil || get == nil {
		ob.Undecided("shape", "id sequence does not read and write the store")
		return
	}
	// one read, one compare-and-set write: a second write (a "retry" with the version stored
	// now) writes a value computed from a read that is no longer current
	if nSet > 1 {
		ob.Violate("seq-second-write", fn.Pos(), "the id sequence writes "+itoa(nSet)+" times for one read: a write that follows a lost compare-and-set carries a value computed from the stale read - two allocations get the same id, or the sequence moves backwards")
	}
	ctx := &ExprCtx{Alias: map[ssa.Value]string{get: "get"}}
	c := plainCall(set)
	val, ver := ctx.Expr(c.Args[1]), ctx.Expr(c.Args[2])
	ob.Site(set.Pos(), "sequence write value="+val+" version="+ver)
	if !strings.Contains(val, "FormatUint(") || !strings.Contains(val, "ParseUint(") || !strings.Contains(val, "#0+1") {
		ob.Violate("seq-value", set.Pos(), "the sequence writes `"+val+"`, not (parsed current value)+1")
	}
	if !strings.HasSuffix(ver, ".Ver") || !(strings.Contains(ver, "get#0") || strings.Contains(ver, "local:seq") || strings.Contains(ver, "phi(")) {
		ob.Violate("seq-version", set.Pos(), "the sequence is written with version `"+ver+"`, not the version that was read")
	}
	if k, ok := c.Args[2].(*ssa.Const); ok && k.Value != nil {
		ob.Violate("seq-version-const", set.Pos(), "the sequence is written with a constant version: no compare-and-set")
	}
	// return: (next, err of Set)
	eachInstr(fn, func(in ssa.Instruction) {
		ret, ok := in.(*ssa.Return)
		if !ok || isErrorReturn(ret) {
			return
		}
		v, e := ctx.Expr(retVal(ret, 0)), ctx.Expr(retVal(ret, 1))
		ob.Site(ret.Pos(), "sequence returns ("+v+", "+e+")")
		if !strings.Contains(v, "ParseUint(") || !strings.HasSuffix(v, "#0+1") {
			ob.Violate("seq-return-value", ret.Pos(), "the sequence returns `"+v+"`, not the value it wrote")
		}
		if !strings.Contains(e, ".Set(") {
			ob.Violate("seq-return-error", ret.Pos(), "the sequence returns error `"+e+"`, dropping the result of the compare-and-set write")
		}
	})
	// other writers of ClusterID / RecoverID
	for _, f := range w.ModFuncs() {
		if f.Package() == nil || f.Package().Pkg.Path() != tablePath || isGenerated(f) {
			continue
		}
		eachInstr(f, func(in ssa.Instruction) {
			st, ok := in.(*ssa.Store)
			if !ok {
				return
			}
			fa, ok := st.Addr.(*ssa.FieldAddr)
			if !ok || !typeIs(fa.X.Type(), tablePath, "Table") {
				return
			}
			fld := fieldAddrName(fa)
			if fld != "ClusterID" && fld != "RecoverID" {
				return
			}
			e := Expr(st.Val)
			ob.Site(in.Pos(), "Table."+fld+" = "+e+" in "+FnName(f))
			if k, ok := st.Val.(*ssa.Const); ok && k.Value != nil && constant.Sign(constant.ToInt(k.Value)) == 0 {
				return
			}
			if !strings.Contains(e, "incAndGetIDSeq(") {
				ob.Violate("id-source@"+FnName(f), in.Pos(), "Table."+fld+" is set to `"+e+"`, which does not come from the id sequence")
			}
		})
	}
	ob.NeedFloor(4)
}

func c14Dir(w *World, r *Report, id, slug string) {
	ob := r.Ob(id, slug, "the state machine's data directory name is built from the table name and the shard id (both parameters occur in the expression stored into the state machine's directory field)", "a directory keyed by the name alone hands the old content to a recreated table")
	a := w.FsmAnchors()
	if a.FSM == nil {
		ob.Undecided("anchor", "state machine type not found")
		return
	}
	n := 0
	for _, fn := range w.ModFuncs() {
		if !isFsmFunc(fn) {
			continue
		}
		eachInstr(fn, func(in ssa.Instruction) {
			st, ok := in.(*ssa.Store)
			if !ok {
				return
			}
			fa, ok := st.Addr.(*ssa.FieldAddr)
			if !ok || !types.Identical(deref(fa.X.Type()), a.FSM) || fieldAddrName(fa) != "dirname" {
				return
			}
			n++
			e := Expr(st.Val)
			ob.Site(in.Pos(), "state machine directory = "+e)
			// table name = New's parameter 0 (captured), shard id = closure parameter 0
			if !strings.Contains(e, "^$0") || !strings.Contains(e, ",$0") {
				ob.Violate("dir-not-keyed-by-both", in.Pos(), "the data directory `"+e+"` is not built from both the table name and the shard id")
			}
		})
	}
	if n == 0 {
		ob.Undecided("shape", "nobody sets the state machine's directory")
	}
	ob.NeedFloor(1)
}

func c14Delete(w *World, r *Report) {
	ob := r.Ob("C14.d", "d-cas-delete", "DeleteTable: the edge errors.Is(err, ErrNotExist) returns ErrTableNotFound; the delete is unreachable from the Get's error edge and passes the version of the pair it read; the manager's write lock is held", "a delete that ignores the version removes a table recreated in between")
	fn := w.Func("storage/table", "Manager.DeleteTable")
	if fn == nil {
		ob.Undecided("anchor", "Manager.DeleteTable not found")
		return
	}
	var get ssa.Value
	var del ssa.Instruction
	eachInstr(fn, func(in ssa.Instruction) {
		if isStoreCall(in, "Get") {
			get = in.(ssa.Value)
		}
		if isStoreCall(in, "Delete") {
			del = in
		}
	})
	if get == nil || del == nil {
		ob.Undecided("shape", "DeleteTable does not get and delete")
		return
	}
	ctx := &ExprCtx{Alias: map[ssa.Value]string{get: "get"}}
	ver := ctx.Expr(plainCall(del).Args[1])
	ob.Site(del.Pos(), "delete with version "+ver)
	if ver != "get#0.Ver" {
		ob.Violate("delete-version", del.Pos(), "the record is deleted with version `"+ver+"`, not the version just read")
	}
	unreachableUnlessAny(w, ob, ctx, after(get.(ssa.Instruction)), func(x ssa.Instruction) bool { return x == del }, "delete-after-get-error", "the delete is reachable although the record could not be read",
		func(l Lit) bool { return l.Kind == "eq" && !l.Neg && l.B == "nil" && l.A == "get#1" })
	found := false
	for _, b := range fn.Blocks {
		for k := range b.Succs {
			for _, l := range ctx.EdgeLits(b, k) {
				if l.Kind == "eq" && !l.Neg && strings.Contains(l.B, "ErrNotExist") {
					found = true
					ob.Site(blockPos(b.Succs[k]), "not-stored edge")
					for _, in := range (&Walk{}).ReachableInstrs(Loc{b.Succs[k], 0}) {
						if ret, ok := in.(*ssa.Return); ok {
							if e := Expr(retVal(ret, 0)); !strings.HasSuffix(e, ".ErrTableNotFound") {
								ob.Violate("delete-not-found-error", ret.Pos(), "deleting an unknown table returns `"+e+"`")
							}
						}
					}
				}
			}
		}
	}
	if !found {
		ob.Violate("delete-not-found-missing", fn.Pos(), "DeleteTable does not distinguish an unknown table")
	}
	isLock := func(in ssa.Instruction) bool { return isCallTo(in, "(*sync.RWMutex).Lock") }
	if p := (&Walk{Barrier: isLock, Target: func(x ssa.Instruction) bool { return x == ssa.Instruction(get.(ssa.Instruction)) }}).Find(entry(fn)); p != nil {
		ob.Violate("delete-unlocked", fn.Pos(), "DeleteTable reads the catalogue without the manager's write lock")
	}
	// success only when the versioned delete succeeded: a refused delete (version mismatch: the
	// record was rewritten since it was read, and still exists) is not reported as a deletion
	if dv, ok := del.(ssa.Value); ok {
		dctx := &ExprCtx{Alias: map[ssa.Value]string{dv: "del"}}
		isNilReturn := func(x ssa.Instruction) bool {
			ret, ok := x.(*ssa.Return)
			return ok && len(ret.Results) > 0 && isNilConst(retVal(ret, len(ret.Results)-1))
		}
		wk := &Walk{Target: isNilReturn, EdgeOK: func(b *ssa.BasicBlock, k int) bool {
			for _, l := range dctx.EdgeLits(b, k) {
				if l.Kind == "eq" && !l.Neg && l.B == "nil" && l.A == "del" {
					return false
				}
			}
			return true
		}}
		if p := wk.Find(after(del)); p != nil {
			ob.Violate("delete-error-swallowed", instrPos(p.Hit), "DeleteTable can report success although the versioned delete was refused or failed: the table is still catalogued and served", w.PathString(p)...)
		}
	}
	ob.NeedFloor(2)
}

// c14Listing: the catalogue listing hands out every record it decoded.
func c14Listing(w *World, r *Report) {
	ob := r.Ob("C14.k", "k-listing-complete", "Manager.getTables: the loop over the stored records visits every one of them, and every iteration that does not return an error crosses the insertion of the decoded record into the result (no record is filtered out)", "the listing feeds reconciliation and the lookup by id: a record that is catalogued but left out of the listing has its shard stopped as 'not catalogued' (a table whose first restore is still loading has ClusterID 0 and only a RecoverID)")
	fn := w.Func("storage/table", "Manager.getTables")
	if fn == nil {
		ob.Undecided("anchor", "Manager.getTables not found")
		return
	}
	n := 0
	for _, sl := range sliceLoops(fn) {
		st, isSlice := sl.Slice.Type().Underlying().(*types.Slice)
		if !isSlice || !strings.HasSuffix(typeString(st.Elem()), "kv.Pair") {
			continue
		}
		n++
		isInsert := func(in ssa.Instruction) bool {
			mu, ok := in.(*ssa.MapUpdate)
			if !ok {
				return false
			}
			mt, ok := mu.Map.Type().Underlying().(*types.Map)
			return ok && typeIs(mt.Elem(), tablePath, "Table")
		}
		checkFullTraversal(w, ob, sl, "stored records", isInsert)
	}
	if n == 0 {
		ob.Undecided("shape", "no loop over the stored records in getTables")
	}
	ob.NeedFloor(1)
}

func c14Diff(w *World, r *Report) {
	ob := r.Ob("C14.e", "e-reconciliation-sets", "diffTables: an id is put into the start set only over edges establishing 'not found among the running shards' and id > reserved range start; an id is appended to the stop list only over edges establishing 'not found among the catalogued ids' and id > range start; the catalogued ids are the ClusterID and the RecoverID of every record whose field is non-zero", "starting a running shard fails the reconcile loop; stopping a catalogued shard takes a table offline; touching the reserved range stops the metadata shard")
	fn := w.Func("storage/table", "diffTables")
	if fn == nil {
		ob.Undecided("anchor", "diffTables not found")
		return
	}
	ctx := &ExprCtx{}
	rangeStart := int64(10000)
	if c, ok := w.Pkg("storage/table").Types.Scope().Lookup("tableIDsRangeStart").(*types.Const); ok {
		rangeStart, _ = constant.Int64Val(c.Val())
	}
	// the two lookups
	mapKind := func(l Lit) string {
		// l.A like "X[k]#1": find the Lookup by scanning instructions
		return ""
	}
	_ = mapKind
	lookups := map[string]ssa.Value{} // "running" / "catalogued" → the comma-ok value
	eachInstr(fn, func(in ssa.Instruction) {
		lk, ok := in.(*ssa.Lookup)
		if !ok {
			return
		}
		mt, ok := lk.X.Type().Underlying().(*types.Map)
		if !ok {
			return
		}
		kind := "running"
		if typeIs(mt.Elem(), tablePath, "Table") {
			kind = "catalogued"
		}
		if !lk.CommaOk {
			// a set kept as map[K]bool into which only `true` is ever stored: the element is the
			// membership
			if b, isB := mt.Elem().Underlying().(*types.Basic); !isB || b.Kind() != types.Bool {
				return
			}
			onlyTrue, n := true, 0
			eachInstr(fn, func(x ssa.Instruction) {
				if mu, ok := x.(*ssa.MapUpdate); ok && mu.Map == lk.X {
					n++
					if c, isC := mu.Value.(*ssa.Const); !isC || c.Value == nil || c.Value.Kind() != constant.Bool || !constant.BoolVal(c.Value) {
						onlyTrue = false
					}
				}
			})
			if onlyTrue && n > 0 {
				lookups[kind] = lk
			}
			return
		}
		if lk.Referrers() != nil {
			for _, rr := range *lk.Referrers() {
				if ex, ok := rr.(*ssa.Extract); ok && ex.Index == 1 {
					lookups[kind] = ex
				}
			}
		}
	})
	if lookups["running"] == nil || lookups["catalogued"] == nil {
		ob.Undecided("shape", "membership lookups of diffTables not found")
		return
	}
	ctx.Alias = map[ssa.Value]string{lookups["running"]: "isRunning", lookups["catalogued"]: "isCatalogued"}
	aboveRange := func(l Lit) bool {
		return l.Kind == "int" && !l.IsNE && l.Lo >= rangeStart+1 && l.Hi >= posInf && !strings.Contains(l.Terms, "+") && !strings.Contains(l.Terms[1:], "-")
	}
	// start set: MapUpdate into map[uint64]Table that is the first result
	eachInstr(fn, func(in ssa.Instruction) {
		switch x := in.(type) {
		case *ssa.MapUpdate:
			mt, ok := x.Map.Type().Underlying().(*types.Map)
			if !ok || !typeIs(mt.Elem(), tablePath, "Table") {
				return
			}
			// only the start set (not the intermediate id map): its value flows to the return
			if !strings.Contains(Expr(x.Map), "toStart") && !flowsToReturn(x.Map, fn) {
				return
			}
			ob.Site(in.Pos(), "start set insertion")
			tgt := func(i ssa.Instruction) bool { return i == in }
			unreachableUnlessAny(w, ob, ctx, entry(fn), tgt, "start-running", "a shard can be put into the start set without having been found not running", func(l Lit) bool { return l.Kind == "bool" && l.Neg && l.A == "isRunning" })
			unreachableUnlessAny(w, ob, ctx, entry(fn), tgt, "start-reserved-range", "an id in the reserved range can be put into the start set", aboveRange)
		case *ssa.Call:
			if CalleeName(&x.Call) != "builtin.append" {
				return
			}
			if s, ok := x.Call.Args[0].Type().Underlying().(*types.Slice); !ok || !isUnsigned(s.Elem()) {
				return
			}
			ob.Site(in.Pos(), "stop list append")
			tgt := func(i ssa.Instruction) bool { return i == in }
			unreachableUnlessAny(w, ob, ctx, entry(fn), tgt, "stop-catalogued", "a shard can be put into the stop list without having been found absent from the catalogue", func(l Lit) bool { return l.Kind == "bool" && l.Neg && l.A == "isCatalogued" })
			unreachableUnlessAny(w, ob, ctx, entry(fn), tgt, "stop-reserved-range", "an id in the reserved range (the metadata shard) can be put into the stop list", aboveRange)
		}
	})
	// catalogued ids: both ClusterID and RecoverID are inserted
	ins := map[string]bool{}
	eachInstr(fn, func(in ssa.Instruction) {
		if mu, ok := in.(*ssa.MapUpdate); ok {
			e := Expr(mu.Key)
			for _, f := range []string{"ClusterID", "RecoverID"} {
				if strings.HasSuffix(e, "."+f) {
					ins[f] = true
					ob.Site(in.Pos(), "catalogued id from "+f)
				}
			}
		}
	})
	for _, f := range []string{"ClusterID", "RecoverID"} {
		if !ins[f] {
			ob.Violate("catalogued-ids/"+f, fn.Pos(), "diffTables does not count a record's "+f+" as catalogued: a restoring/active shard is stopped")
		}
	}
	// the consumer: every id of the start set is started under that id (the set's key - a record
	// has two ids, ClusterID and RecoverID), every element of the stop list is stopped
	for _, ci := range w.CallersOf(fn) {
		host := ci.Parent()
		cv, ok := ci.(ssa.Value)
		if !ok {
			continue
		}
		hctx := &ExprCtx{Alias: map[ssa.Value]string{cv: "diff"}}
		nStart, nStop := 0, 0
		eachInstr(host, func(in ssa.Instruction) {
			c := plainCall(in)
			if c == nil {
				return
			}
			cal := StaticCallee(c)
			if cal == nil {
				return
			}
			switch cal.Name() {
			case "startTable":
				nStart++
				name, id := hctx.Expr(c.Args[1]), hctx.Expr(c.Args[2])
				ob.Site(in.Pos(), "reconcile starts ("+name+", "+id+")")
				// id: the key of the iteration over the start set
				if !isRangeKeyOf(c.Args[2], cv, 0) {
					ob.Violate("start-id-source@"+FnName(host), in.Pos(), "the shard is started under `"+id+"`, not under the id the start set lists it with (a record restoring from a backup is catalogued under two ids)")
				}
			case "stopTable":
				nStop++
				id := hctx.Expr(c.Args[1])
				ob.Site(in.Pos(), "reconcile stops "+id)
				if !strings.HasPrefix(id, "diff#1[") {
					ob.Violate("stop-id-source@"+FnName(host), in.Pos(), "the shard stopped is `"+id+"`, not an element of the stop list")
				}
			}
		})
		if nStart == 0 {
			ob.Violate("start-set-ignored@"+FnName(host), ci.Pos(), FnName(host)+" does not start the shards of the start set")
		}
		if nStop == 0 {
			ob.Violate("stop-list-ignored@"+FnName(host), ci.Pos(), FnName(host)+" does not stop the shards of the stop list")
		}
	}
	ob.NeedFloor(4)
}

// isRangeKeyOf: v is the key produced by ranging over the idx-th result of the call `tuple`.
func isRangeKeyOf(v ssa.Value, tuple ssa.Value, idx int) bool {
	ex, ok := v.(*ssa.Extract)
	if !ok || ex.Index != 1 {
		return false
	}
	nx, ok := ex.Tuple.(*ssa.Next)
	if !ok {
		return false
	}
	rg, ok := nx.Iter.(*ssa.Range)
	if !ok {
		return false
	}
	src, ok := rg.X.(*ssa.Extract)
	return ok && src.Tuple == tuple && src.Index == idx
}

func flowsToReturn(v ssa.Value, fn *ssa.Function) bool {
	found := false
	eachInstr(fn, func(in ssa.Instruction) {
		if ret, ok := in.(*ssa.Return); ok {
			for i := range ret.Results {
				rv := retVal(ret, i)
				if rv == v {
					found = true
				}
				if phi, ok := rv.(*ssa.Phi); ok {
					for _, e := range phi.Edges {
						if e == v {
							found = true
						}
					}
				}
				if u, ok := rv.(*ssa.UnOp); ok {
					if al, ok := u.X.(*ssa.Alloc); ok {
						for _, st := range storesTo(fn, al) {
							if st.Val == v {
								found = true
							}
						}
					}
				}
			}
		}
	})
	return found
}

func c14Isolation(w *World, r *Report) {
	ob := r.Ob("C14.f", "f-isolation", "in the table layer every SyncRead/StaleRead passes the receiver's ClusterID and every SyncPropose the receiver's session; AsActive builds the session from the same record's ClusterID", "a read or proposal addressed to another shard changes or shows another table's content")
	for _, fn := range w.ModFuncs() {
		if fn.Package() == nil && fn.Origin() == nil {
			continue
		}
		p := fn.Package()
		if p == nil && fn.Origin() != nil {
			p = fn.Origin().Package()
		}
		if p == nil || p.Pkg.Path() != tablePath {
			continue
		}
		top := fn
		for top.Parent() != nil {
			top = top.Parent()
		}
		isActive := false
		if top.Signature.Recv() != nil && typeIs(top.Signature.Recv().Type(), tablePath, "ActiveTable") {
			isActive = true
		}
		if len(top.Params) > 0 && typeIs(top.Params[0].Type(), tablePath, "ActiveTable") {
			isActive = true
		}
		if !isActive {
			continue
		}
		eachInstr(fn, func(in ssa.Instruction) {
			c := plainCall(in)
			if c == nil || !c.IsInvoke() {
				return
			}
			switch c.Method.Name() {
			case "SyncRead":
				e := strings.TrimLeft(Expr(c.Args[1]), "^")
				ob.Site(in.Pos(), "SyncRead shard "+e+" in "+FnName(fn))
				if e != "$0.Table.ClusterID" && e != "$0.ClusterID" {
					ob.Violate("read-target@"+FnName(fn), in.Pos(), "a linearizable read is addressed to shard `"+e+"`, not the table's own shard")
				}
			case "StaleRead":
				e := strings.TrimLeft(Expr(c.Args[0]), "^")
				ob.Site(in.Pos(), "StaleRead shard "+e+" in "+FnName(fn))
				if e != "$0.Table.ClusterID" && e != "$0.ClusterID" {
					ob.Violate("read-target@"+FnName(fn), in.Pos(), "a local read is addressed to shard `"+e+"`, not the table's own shard")
				}
			case "SyncPropose":
				e := strings.TrimLeft(Expr(c.Args[1]), "^")
				ob.Site(in.Pos(), "SyncPropose session "+e+" in "+FnName(fn))
				if e != "$0.session" {
					ob.Violate("propose-target@"+FnName(fn), in.Pos(), "a proposal uses session `"+e+"`, not the table's own session")
				}
			}
		})
	}
	if aa := w.Func("storage/table", "Table.AsActive"); aa != nil {
		eachInstr(aa, func(in ssa.Instruction) {
			if c := plainCall(in); c != nil && c.IsInvoke() && c.Method.Name() == "GetNoOPSession" {
				e := Expr(c.Args[0])
				ob.Site(in.Pos(), "session for shard "+e)
				if !strings.HasSuffix(e, ".ClusterID") || !(strings.HasPrefix(e, "$0") || strings.Contains(e, "local:t")) {
					ob.Violate("session-target", in.Pos(), "the session is built for shard `"+e+"`")
				}
			}
		})
	} else {
		ob.Undecided("anchor/AsActive", "Table.AsActive not found")
	}
	ob.NeedFloor(6)
}

// ---------------------------------------------------------------------------------------

func checkC15(w *World, r *Report) {
	r.Decides = "C15 is decided in its structural part only: (a) the lease write is reachable only over an edge establishing 'unclaimed' (the lease key is not stored), 'holder == this node' or 'expiry before now', its version argument is the version of the pair that was inspected, nil is returned only after its success edge and ErrLeaseNotAcquired otherwise; (b) the lease is deleted only over the edge holder == this node, with the version read; (c) the replication worker replicates and recovers only while its leased flag is true, the flag is set from the lease call's outcome, and the lease is requested for longer than the renewal period; (d) the metadata store underneath is a compare-and-set whose versions are log indices (the obligations C13.a and C13.b): a version seen before a delete and re-creation can never match again."
	r.NotDecided = []string{"lease expiry under clock skew between nodes"}
	r.Assume = []string{"C13: compare-and-set semantics of the metadata store; versions are never 0"}
	c15Lease(w, r)
	c15Return(w, r)
	c15Worker(w, r, "C15.c", "c-worker-obeys-lease")
	if mt := metaType(w); mt != nil {
		c13Snapshot(w, r, mt, "C15.e", "e-store-snapshot-replaces")
		c13StoreOps(w, r, "C15.f", "f-store-operations-unconditional")
	}
	// the compare-and-set the lease relies on: a version handed out once never comes back
	// (versions are log indices), and a write needs the current version (shared with C13.a/b)
	c13Gate(w, r, metaUpdate(w), "C15.d1", "C15.d2")
}

func c15Lease(w *World, r *Report) {
	ob := r.Ob("C15.a", "a-lease-write-gated-cas", "LeaseTable: store.Set is reachable only over an edge establishing errors.Is(getErr, ErrNotExist) or lease.ID == cfg.NodeID or lease.Until.Before(now); its version argument is get.Ver of the Get whose value was decoded; from the Set's error edge only error returns are reachable; every return not preceded by the Set returns a non-nil error", "an ungated or version-less write lets two nodes hold the lease at once")
	fn := w.Func("storage/table", "Manager.LeaseTable")
	if fn == nil {
		ob.Undecided("anchor", "Manager.LeaseTable not found")
		return
	}
	var get ssa.Value
	var set ssa.Instruction
	eachInstr(fn, func(in ssa.Instruction) {
		if isStoreCall(in, "Get") {
			get = in.(ssa.Value)
		}
		if isStoreCall(in, "Set") {
			set = in
		}
	})
	if get == nil || set == nil {
		ob.Undecided("shape", "LeaseTable does not get and set")
		return
	}
	ctx := &ExprCtx{Alias: map[ssa.Value]string{get: "get"}}
	ob.Site(set.Pos(), "lease write with version "+ctx.Expr(plainCall(set).Args[2]))
	if v := ctx.Expr(plainCall(set).Args[2]); v != "get#0.Ver" {
		ob.Violate("lease-version", set.Pos(), "the lease is written with version `"+v+"`, not the version of the lease that was inspected: a concurrent acquisition is overwritten")
	}
	if k := ctx.Expr(plainCall(set).Args[0]); k != ctx.Expr(callOf(get.(ssa.Instruction)).Args[0]) {
		ob.Violate("lease-key", set.Pos(), "the lease is written under `"+k+"` but read from another key")
	}
	unclaimed := func(l Lit) bool {
		return l.Kind == "eq" && !l.Neg && l.A == "get#1" && strings.Contains(l.B, "ErrNotExist")
	}
	mine := func(l Lit) bool {
		return l.Kind == "int" && !l.IsNE && l.Lo == 0 && l.Hi == 0 && strings.Contains(l.Terms, ".ID") && strings.Contains(l.Terms, ".NodeID")
	}
	expired := func(l Lit) bool {
		return l.Kind == "bool" && !l.Neg && strings.HasPrefix(l.A, "(time.Time).Before(") && strings.Contains(l.A, ".Until,") && strings.Contains(l.A, "time.Now()")
	}
	unreachableUnlessAny(w, ob, ctx, entry(fn), func(x ssa.Instruction) bool { return x == set }, "lease-write-ungated", "the lease can be written although it is held by another node and has not expired", unclaimed, mine, expired)
	// the three gate tests exist
	seen := map[string]bool{}
	for _, b := range fn.Blocks {
		for k := range b.Succs {
			for _, l := range ctx.EdgeLits(b, k) {
				if unclaimed(l) {
					seen["unclaimed"] = true
				}
				if mine(l) {
					seen["mine"] = true
				}
				if expired(l) {
					seen["expired"] = true
				}
			}
		}
	}
	for _, k := range []string{"unclaimed", "mine", "expired"} {
		if seen[k] {
			ob.SiteS("gate literal present: " + k)
		} else {
			ob.Violate("lease-gate-missing/"+k, fn.Pos(), "LeaseTable no longer tests `"+k+"`: a legitimate acquisition or renewal is refused (or the test moved into an unrecognised form)")
		}
	}
	// nil only after the Set's success edge
	sv := set.(ssa.Value)
	ctx.Alias[sv] = "set"
	eachInstr(fn, func(in ssa.Instruction) {
		ret, ok := in.(*ssa.Return)
		if !ok || isErrorReturn(ret) {
			return
		}
		// success return: must be dominated by set#1 == nil
		wk := &Walk{Target: func(x ssa.Instruction) bool { return x == in }, EdgeOK: func(b *ssa.BasicBlock, k int) bool {
			for _, l := range ctx.EdgeLits(b, k) {
				if l.Kind == "eq" && !l.Neg && l.B == "nil" && l.A == "set#1" {
					return false
				}
			}
			return true
		}}
		if p := wk.Find(entry(fn)); p != nil {
			ob.Violate("lease-nil-without-write", ret.Pos(), "LeaseTable can report success without the lease write having succeeded", w.PathString(p)...)
		}
	})
	// the data inspected is the Get's value
	okDecode := false
	eachInstr(fn, func(in ssa.Instruction) {
		if c := plainCall(in); c != nil && CalleeName(c) == "encoding/json.Unmarshal" {
			if strings.Contains(ctx.Expr(c.Args[0]), "get#0.Value") {
				okDecode = true
			}
		}
	})
	if !okDecode {
		ob.Violate("lease-decode-source", fn.Pos(), "the lease that is inspected is not decoded from the pair that was read")
	}
	ob.NeedFloor(4)
}

func c15Return(w *World, r *Report) {
	ob := r.Ob("C15.b", "b-return-only-own", "ReturnTable: store.Delete is reachable only over the edge lease.ID == cfg.NodeID and passes get.Ver; from the Get's error edges the delete is unreachable", "returning somebody else's lease lets a third node acquire it while the holder still replicates")
	fn := w.Func("storage/table", "Manager.ReturnTable")
	if fn == nil {
		ob.Undecided("anchor", "Manager.ReturnTable not found")
		return
	}
	var get ssa.Value
	var del ssa.Instruction
	eachInstr(fn, func(in ssa.Instruction) {
		if isStoreCall(in, "Get") {
			get = in.(ssa.Value)
		}
		if isStoreCall(in, "Delete") {
			del = in
		}
	})
	if get == nil || del == nil {
		ob.Undecided("shape", "ReturnTable does not get and delete")
		return
	}
	ctx := &ExprCtx{Alias: map[ssa.Value]string{get: "get"}}
	ob.Site(del.Pos(), "lease delete with version "+ctx.Expr(plainCall(del).Args[1]))
	if v := ctx.Expr(plainCall(del).Args[1]); v != "get#0.Ver" {
		ob.Violate("return-version", del.Pos(), "the lease is deleted with version `"+v+"`, not the version read")
	}
	mine := func(l Lit) bool {
		return l.Kind == "int" && !l.IsNE && l.Lo == 0 && l.Hi == 0 && strings.Contains(l.Terms, ".ID") && strings.Contains(l.Terms, ".NodeID")
	}
	unreachableUnlessAny(w, ob, ctx, entry(fn), func(x ssa.Instruction) bool { return x == del }, "return-foreign-lease", "the lease can be deleted without it having been found to belong to this node", mine)
	unreachableUnlessAny(w, ob, ctx, entry(fn), func(x ssa.Instruction) bool { return x == del }, "return-after-get-error", "the lease delete is reachable although the lease could not be read",
		func(l Lit) bool { return l.Kind == "eq" && !l.Neg && l.B == "nil" && l.A == "get#1" })
	ob.NeedFloor(1)
}

// c15Worker — C15.c / C05.e: the replication worker obeys the lease.
func c15Worker(w *World, r *Report, id, slug string) {
	ob := r.Ob(id, slug, "replication worker: the replicate and recover steps are reachable only over an edge establishing leased.Load()==true; leased is stored true only on the nil-error edge of LeaseTable and false on the other; the lease duration passed to LeaseTable exceeds the renewal period", "a worker that replicates without the lease applies the leader's commands a second time alongside the lease holder")
	wt := w.NamedType("replication", "worker")
	if wt == nil {
		ob.Undecided("anchor", "replication.worker not found")
		return
	}
	var leaseFn *ssa.Function // function calling LeaseTable
	var users []*ssa.Function
	ms := w.Prog.MethodSets.MethodSet(types.NewPointer(wt))
	for i := 0; i < ms.Len(); i++ {
		fn := w.MethodOf(types.NewPointer(wt), ms.At(i).Obj().Name())
		if fn == nil || fn.Blocks == nil {
			continue
		}
		for _, f := range withClosures(fn) {
			eachInstr(f, func(in ssa.Instruction) {
				c := callOf(in)
				if c == nil {
					return
				}
				if isLeaseCall(c) {
					leaseFn = f
				}
				if cal := StaticCallee(c); cal != nil && (cal.Name() == "do" || cal.Name() == "recover") && cal.Signature.Recv() != nil && typeIs(cal.Signature.Recv().Type(), modPath+"/replication", "worker") {
					users = append(users, f)
				}
			})
		}
	}
	if leaseFn == nil {
		ob.Undecided("shape", "no function of the worker calls LeaseTable")
		return
	}
	isLeasedLoad := func(l Lit, want bool) bool {
		return l.Kind == "bool" && l.Neg == !want && strings.Contains(l.A, "atomic.Bool).Load(") && strings.Contains(l.A, ".leased")
	}
	seenUse := 0
	for _, f := range users {
		ctx := &ExprCtx{}
		eachInstr(f, func(in ssa.Instruction) {
			c := callOf(in)
			if c == nil {
				return
			}
			cal := StaticCallee(c)
			if cal == nil || !(cal.Name() == "do" || cal.Name() == "recover") || cal.Signature.Recv() == nil || !typeIs(cal.Signature.Recv().Type(), modPath+"/replication", "worker") {
				return
			}
			seenUse++
			ob.Site(in.Pos(), "worker."+cal.Name()+" called in "+FnName(f))
			// a call inside an immediately invoked closure is guarded at the closure's call site
			site, host := ssa.Instruction(in), f
			for host.Parent() != nil {
				var callSite ssa.Instruction
				eachInstr(host.Parent(), func(x ssa.Instruction) {
					if cc := plainCall(x); cc != nil { // synchronous calls only, not go/defer
						if mc, ok := cc.Value.(*ssa.MakeClosure); ok && mc.Fn == ssa.Value(host) {
							callSite = x
						}
					}
				})
				if callSite == nil {
					break
				}
				site, host = callSite, host.Parent()
			}
			tgt := site
			unreachableUnlessAny(w, ob, ctx, entry(host), func(x ssa.Instruction) bool { return x == tgt }, "work-without-lease/"+cal.Name(), "the worker can "+map[string]string{"do": "replicate", "recover": "recover"}[cal.Name()]+" a table without its leased flag having been found true",
				func(l Lit) bool { return isLeasedLoad(l, true) })
		})
	}
	if seenUse == 0 {
		ob.Undecided("no-work", "the worker's replicate/recover steps are not called")
	}
	// leased flag written from the lease outcome
	for _, f := range withClosures(leaseFn) {
		ctx := &ExprCtx{}
		var lease ssa.Value
		eachInstr(f, func(in ssa.Instruction) {
			if c := callOf(in); c != nil && isLeaseCall(c) {
				lease = in.(ssa.Value)
			}
		})
		if lease == nil {
			continue
		}
		ctx.Alias = map[ssa.Value]string{lease: "lease"}
		c := callOf(lease.(ssa.Instruction))
		ob.Site(lease.Pos(), "LeaseTable("+ctx.Expr(c.Args[len(c.Args)-2])+", "+ctx.Expr(c.Args[len(c.Args)-1])+")")
		// duration vs renewal period: the ticker in this function
		dur := ctx.Expr(c.Args[len(c.Args)-1])
		eachInstr(f, func(in ssa.Instruction) {
			if cc := callOf(in); cc != nil && (CalleeName(cc) == "time.NewTicker" || CalleeName(cc) == "time.Tick" || CalleeName(cc) == "time.NewTimer") {
				per := ctx.Expr(cc.Args[0])
				ob.Site(in.Pos(), "renewal period "+per+", lease duration "+dur)
				if !(strings.Contains(dur, per) && (strings.Contains(dur, "*") || strings.Contains(dur, "+"+per))) {
					ob.Violate("lease-shorter-than-renewal", lease.Pos(), "the lease is requested for `"+dur+"` but renewed every `"+per+"`: it can expire between renewals")
				}
			}
		})
		eachInstr(f, func(in ssa.Instruction) {
			cc := callOf(in)
			if cc == nil || !(strings.HasSuffix(CalleeName(cc), "atomic.Bool).Store") || strings.HasSuffix(CalleeName(cc), "atomic.Bool).Swap")) || !strings.Contains(Expr(cc.Args[0]), ".leased") {
				return
			}
			val := isConstBool(cc.Args[1], true)
			ob.Site(in.Pos(), "leased.Store("+Expr(cc.Args[1])+")")
			if val {
				unreachableUnlessAny(w, ob, ctx, after(lease.(ssa.Instruction)), func(x ssa.Instruction) bool { return x == in }, "leased-true-without-lease", "the worker marks itself lease holder without LeaseTable having returned nil",
					func(l Lit) bool { return l.Kind == "eq" && !l.Neg && l.B == "nil" && l.A == "lease" })
			} else if isConstBool(cc.Args[1], false) {
				// fine on any edge
			} else if l, ok := ctx.CondLit(cc.Args[1]); ok && l.Kind == "eq" && !l.Neg && l.B == "nil" && l.A == "lease" {
				// leased := (err == nil): true exactly when the lease was granted
			} else {
				ob.Violate("leased-value", in.Pos(), "the leased flag is set to `"+Expr(cc.Args[1])+"`")
			}
		})
		// on the error edge the flag must become false before the next use - unless the flag is
		// set to the outcome itself (`leased := err == nil`) on every way to the next wait
		isExact := func(x ssa.Instruction) bool {
			cc := callOf(x)
			if cc == nil || !(strings.HasSuffix(CalleeName(cc), "atomic.Bool).Store") || strings.HasSuffix(CalleeName(cc), "atomic.Bool).Swap")) {
				return false
			}
			l2, ok := ctx.CondLit(cc.Args[1])
			return ok && l2.Kind == "eq" && !l2.Neg && l2.B == "nil" && l2.A == "lease"
		}
		exactAlways := false
		nExact := 0
		eachInstr(f, func(x ssa.Instruction) {
			if isExact(x) {
				nExact++
			}
		})
		if nExact > 0 {
			exactAlways = (&Walk{Barrier: isExact, Target: func(x ssa.Instruction) bool { _, ok := x.(*ssa.Select); return ok }}).Find(after(lease.(ssa.Instruction))) == nil
		}
		for _, b := range f.Blocks {
			if exactAlways {
				break
			}
			for k := range b.Succs {
				for _, l := range ctx.EdgeLits(b, k) {
					if l.Kind == "eq" && l.Neg && l.B == "nil" && l.A == "lease" {
						isFalseStore := func(x ssa.Instruction) bool {
							cc := callOf(x)
							if cc == nil || !(strings.HasSuffix(CalleeName(cc), "atomic.Bool).Store") || strings.HasSuffix(CalleeName(cc), "atomic.Bool).Swap")) {
								return false
							}
							if isConstBool(cc.Args[1], false) {
								return true
							}
							l2, ok := ctx.CondLit(cc.Args[1])
							return ok && l2.Kind == "eq" && !l2.Neg && l2.B == "nil" && l2.A == "lease"
						}
						p := (&Walk{Barrier: isFalseStore, Target: func(x ssa.Instruction) bool {
							if _, ok := x.(*ssa.Select); ok {
								return true
							}
							return isAnyReturn(x) && false
						}}).Find(Loc{b.Succs[k], 0})
						if p != nil {
							ob.Violate("lease-lost-flag-kept", blockPos(b.Succs[k]), "after a failed lease request the worker goes back to waiting with its leased flag unchanged", w.PathString(p)...)
						}
					}
				}
			}
		}
	}
	ob.NeedFloor(4)
}

func isLeaseCall(c *ssa.CallCommon) bool {
	if c.IsInvoke() {
		return c.Method.Name() == "LeaseTable"
	}
	cal := StaticCallee(c)
	return cal != nil && cal.Name() == "LeaseTable"
}

// ---- C14.g: names stay inside the catalogue's key space ----

// nameValidators: functions (string) error of the table package that cannot return nil once
// strings.Contains(name, "/") (or an equivalent separator test) held.
func nameValidators(w *World) []*ssa.Function {
	var out []*ssa.Function
	sp := w.SSAPkg("storage/table")
	if sp == nil {
		return nil
	}
	for _, m := range sp.Members {
		fn, ok := m.(*ssa.Function)
		if !ok || fn.Blocks == nil || len(fn.Params) != 1 || errorResultIndex(fn) != 0 || fn.Signature.Results().Len() != 1 {
			continue
		}
		if b, ok := fn.Params[0].Type().Underlying().(*types.Basic); !ok || b.Kind() != types.String {
			continue
		}
		ctx := &ExprCtx{Alias: map[ssa.Value]string{}}
		n := 0
		eachInstr(fn, func(in ssa.Instruction) {
			if a := separatorAlias(in, fn.Params[0]); a != "" {
				ctx.Alias[in.(ssa.Value)] = a
				n++
			}
		})
		if n == 0 {
			continue
		}
		// from the hasSep edge no nil return
		good := true
		for _, b := range fn.Blocks {
			for k := range b.Succs {
				for _, l := range ctx.EdgeLits(b, k) {
					if sepPresent(l) {
						for _, in := range (&Walk{}).ReachableInstrs(Loc{b.Succs[k], 0}) {
							if ret, ok := in.(*ssa.Return); ok && !isErrorReturn(ret) {
								good = false
							}
						}
					}
				}
			}
		}
		// and a nil return is reachable only over !hasSep
		wk := &Walk{Target: isSuccessReturn, EdgeOK: func(b *ssa.BasicBlock, k int) bool {
			for _, l := range ctx.EdgeLits(b, k) {
				if sepAbsent(l) {
					return false
				}
			}
			return true
		}}
		if wk.Find(entry(fn)) != nil {
			good = false
		}
		if good {
			out = append(out, fn)
		}
	}
	return out
}

// sepPresent / sepAbsent: the literal says that the name contains / does not contain the separator.
func sepPresent(l Lit) bool {
	return l.Kind == "bool" && ((l.A == "hasSep" && !l.Neg) || (l.A == "noSep" && l.Neg))
}

func sepAbsent(l Lit) bool {
	return l.Kind == "bool" && ((l.A == "hasSep" && l.Neg) || (l.A == "noSep" && !l.Neg))
}

// separatorAlias: "hasSep" if the instruction's value is true exactly when v contains '/',
// "noSep" if it is true exactly when it does not, "" otherwise. Recognised: the Contains family,
// and comparisons of the Index family (found: >= 0, > -1, != -1) and of Count (found: > 0, != 0,
// >= 1) with a constant.
func separatorAlias(in ssa.Instruction, v ssa.Value) string {
	if isSeparatorTest(in, v) {
		return "hasSep"
	}
	bo, ok := in.(*ssa.BinOp)
	if !ok {
		return ""
	}
	x, y, op := bo.X, bo.Y, bo.Op
	if _, isC := x.(*ssa.Const); isC {
		x, y = y, x
		switch op {
		case token.LSS:
			op = token.GTR
		case token.LEQ:
			op = token.GEQ
		case token.GTR:
			op = token.LSS
		case token.GEQ:
			op = token.LEQ
		}
	}
	k, isK := constInt(y)
	call, isCall := x.(*ssa.Call)
	if !isK || !isCall || len(call.Call.Args) != 2 || !sameValue(call.Call.Args[0], v) {
		return ""
	}
	hasSlash := func(a ssa.Value) bool {
		c, ok := a.(*ssa.Const)
		if !ok || c.Value == nil {
			return false
		}
		if c.Value.Kind() == constant.String {
			return strings.Contains(constant.StringVal(c.Value), "/")
		}
		n, ok := constInt(a)
		return ok && n == '/'
	}
	if !hasSlash(call.Call.Args[1]) {
		return ""
	}
	var base int64
	switch CalleeName(&call.Call) {
	case "strings.Index", "strings.IndexByte", "strings.IndexRune", "strings.IndexAny", "strings.LastIndex", "strings.LastIndexByte", "strings.LastIndexAny":
		base = -1 // "not found" value; found ⇔ result > base
	case "strings.Count":
		base = 0
	default:
		return ""
	}
	switch {
	case op == token.GTR && k == base, op == token.GEQ && k == base+1, op == token.NEQ && k == base:
		return "hasSep"
	case op == token.EQL && k == base, op == token.LSS && k == base+1, op == token.LEQ && k == base:
		return "noSep"
	}
	return ""
}

// isSeparatorTest: strings.Contains(v, "/") / ContainsRune / ContainsAny test on v.
func isSeparatorTest(in ssa.Instruction, v ssa.Value) bool {
	c := plainCall(in)
	if c == nil || len(c.Args) != 2 || !sameValue(c.Args[0], v) {
		return false
	}
	switch CalleeName(c) {
	case "strings.Contains", "strings.ContainsAny":
		k, ok := c.Args[1].(*ssa.Const)
		return ok && k.Value != nil && k.Value.Kind() == constant.String && strings.Contains(constant.StringVal(k.Value), "/")
	case "strings.ContainsRune":
		k, ok := constInt(c.Args[1])
		return ok && k == '/'
	}
	return false
}

func c14KeySpace(w *World, r *Report) {
	ob := r.Ob("C14.g", "g-name-inside-key-space", "a catalogue record whose name comes from a string parameter (create, restore) is written only after that name passed a separator test: every path from the function's entry to the record write crosses the nil edge of a validator that cannot return nil when strings.Contains(name, \"/\"), or the false edge of such a test itself - in the function or, for all of its call sites, in its callers", "catalogue keys are paths listed by a glob that does not cross '/': a table named a/b is created but invisible to listing and reconciliation, and x/lease shares its key with the replication lease of table x")
	mt := w.NamedType("storage/table", "Manager")
	if mt == nil {
		ob.Undecided("anchor", "table manager not found")
		return
	}
	pt := types.NewPointer(mt)
	// the record writer: Manager method with a Table parameter that calls store.Set
	var writer *ssa.Function
	ms := w.Prog.MethodSets.MethodSet(pt)
	var methods []*ssa.Function
	for i := 0; i < ms.Len(); i++ {
		if f := w.MethodOf(pt, ms.At(i).Obj().Name()); f != nil && f.Blocks != nil {
			methods = append(methods, f)
		}
	}
	for _, f := range methods {
		if len(f.Params) < 2 || !typeIs(f.Params[1].Type(), tablePath, "Table") {
			continue
		}
		eachInstr(f, func(in ssa.Instruction) {
			if isStoreCall(in, "Set") && strings.Contains(Expr(plainCall(in).Args[0]), "$1.Name") {
				writer = f
			}
		})
	}
	if writer == nil {
		ob.Undecided("anchor/writer", "no Manager method (Table, …) that writes the record under a key built from the table's name")
		return
	}
	ob.Site(writer.Pos(), "record writer "+FnName(writer))
	validators := nameValidators(w)
	for _, v := range validators {
		ob.Site(v.Pos(), "name validator "+FnName(v)+" (no nil return once the name contains the separator)")
	}
	isValidator := func(f *ssa.Function) bool {
		for _, v := range validators {
			if v == f {
				return true
			}
		}
		return false
	}
	// guardedAt: every path from f's entry to `at` establishes that value p (a string of f) has no separator
	var guardedAt func(f *ssa.Function, at ssa.Instruction, p ssa.Value, depth int) bool
	guardedAt = func(f *ssa.Function, at ssa.Instruction, p ssa.Value, depth int) bool {
		ctx := &ExprCtx{Alias: map[ssa.Value]string{}}
		eachInstr(f, func(in ssa.Instruction) {
			c := plainCall(in)
			if c == nil {
				return
			}
			if cal := StaticCallee(c); cal != nil && isValidator(cal) && len(c.Args) == 1 && sameValue(c.Args[0], p) {
				ctx.Alias[in.(ssa.Value)] = "valid"
			}
			if a := separatorAlias(in, p); a != "" {
				ctx.Alias[in.(ssa.Value)] = a
			}
		})
		wk := &Walk{Target: func(x ssa.Instruction) bool { return x == at }, EdgeOK: func(b *ssa.BasicBlock, k int) bool {
			for _, l := range ctx.EdgeLits(b, k) {
				if l.Kind == "eq" && !l.Neg && l.B == "nil" && l.A == "valid" {
					return false
				}
				if sepAbsent(l) {
					return false
				}
			}
			return true
		}}
		if wk.Find(entry(f)) == nil {
			return true
		}
		// the callers establish it for the argument they pass
		par, isP := p.(*ssa.Parameter)
		if !isP || depth >= 2 {
			return false
		}
		idx := -1
		for i, q := range f.Params {
			if q == par {
				idx = i
			}
		}
		callers := w.CallersOf(f)
		if idx < 0 || len(callers) == 0 {
			return false
		}
		for _, ci := range callers {
			if idx >= len(ci.Common().Args) || !guardedAt(ci.Parent(), ci, ci.Common().Args[idx], depth+1) {
				return false
			}
		}
		return true
	}
	n := 0
	for _, f := range methods {
		eachInstr(f, func(in ssa.Instruction) {
			c := plainCall(in)
			if c == nil || StaticCallee(c) != writer {
				return
			}
			// the Table argument: a load of a local whose Name field is stored in f
			u, ok := c.Args[1].(*ssa.UnOp)
			if !ok {
				return
			}
			al, ok := u.X.(*ssa.Alloc)
			if !ok {
				return
			}
			for _, st := range storesToField(f, al, "Name") {
				src := st.Val
				if _, isParam := src.(*ssa.Parameter); !isParam {
					continue // a name read back from the catalogue, not from outside
				}
				n++
				ob.Site(in.Pos(), "record for the name parameter `"+Expr(src)+"` written in "+FnName(f))
				if !guardedAt(f, in, src, 0) {
					ob.Violate("name-unchecked@"+FnName(f), in.Pos(), FnName(f)+" writes a catalogue record for a name it was given without a separator test having been passed: a name containing '/' leaves the catalogue's key space")
				}
			}
		})
	}
	// the same for a record removed (or written) directly under the key of a name parameter:
	// DeleteTable("sys/idseq") would remove the id sequence, "x/lease" the lease of table x
	for _, f := range methods {
		eachInstr(f, func(in ssa.Instruction) {
			if !isStoreCall(in, "Delete") && !isStoreCall(in, "Set") {
				return
			}
			c := plainCall(in)
			key := c.Args[0]
			for _, p := range f.Params {
				b, ok := p.Type().Underlying().(*types.Basic)
				if !ok || b.Kind() != types.String {
					continue
				}
				if Expr(key) != "storage/table.storedTableName("+Expr(p)+")" {
					continue
				}
				n++
				what := "removed"
				if isStoreCall(in, "Set") {
					what = "written"
				}
				ob.Site(in.Pos(), "record "+what+" under the key of the name parameter `"+Expr(p)+"` in "+FnName(f))
				if !guardedAt(f, in, p, 0) {
					ob.Violate("name-unchecked@"+FnName(f), in.Pos(), FnName(f)+" can have a catalogue record "+what+" under the key built from a name it was given without a separator test having been passed: the name sys/idseq addresses the id sequence, x/lease the lease of table x")
				}
			}
		})
	}
	if n == 0 {
		ob.Undecided("shape", "no record write for a name parameter found")
	}
	ob.NeedFloor(4)
}

// c14RestoreRecord: after the load, Restore finishes on the catalogue record it re-read.
func c14RestoreRecord(w *World, r *Report) {
	ob := r.Ob("C14.l", "l-restore-rereads-record", "Manager.Restore: from the error edge of every catalogue read that follows the load (readIntoTable) only error returns are reachable", "a table deleted while its restore was loading must make the restore fail: going on writes a record built from the zero value - a catalogued table with the empty name that nobody created, whose recovery shard is never stopped")
	fn := w.Func("storage/table", "Manager.Restore")
	if fn == nil {
		ob.Undecided("anchor", "Manager.Restore not found")
		return
	}
	var load ssa.Instruction
	eachInstr(fn, func(in ssa.Instruction) {
		if c := plainCall(in); c != nil && StaticCallee(c) != nil && StaticCallee(c).Name() == "readIntoTable" {
			load = in
		}
	})
	if load == nil {
		ob.Undecided("shape", "Restore does not call the loader")
		return
	}
	n := 0
	for _, in := range (&Walk{}).ReachableInstrs(after(load)) {
		c := plainCall(in)
		if c == nil {
			continue
		}
		isRead := isStoreCall(in, "Get") || (StaticCallee(c) != nil && (StaticCallee(c).Name() == "getTableVersion" || StaticCallee(c).Name() == "getTable"))
		if !isRead {
			continue
		}
		n++
		ob.Site(in.Pos(), "catalogue read after the load")
		rv := in.(ssa.Value)
		ei := 1
		if tup, ok := rv.Type().(*types.Tuple); ok {
			ei = tup.Len() - 1
		}
		rctx := &ExprCtx{Alias: map[ssa.Value]string{rv: "read"}}
		wk := &Walk{Target: func(x ssa.Instruction) bool {
			ret, ok := x.(*ssa.Return)
			return ok && !isErrorReturn(ret)
		}, EdgeOK: func(b *ssa.BasicBlock, k int) bool {
			for _, l := range rctx.EdgeLits(b, k) {
				if l.Kind == "eq" && !l.Neg && l.B == "nil" && l.A == "read#"+itoa(ei) {
					return false
				}
			}
			return true
		}}
		if p := wk.Find(after(in)); p != nil {
			ob.Violate("restore-continues-without-record", instrPos(p.Hit), "Restore can finish successfully although re-reading the table's record after the load failed (the table was deleted meanwhile): it writes a record with the empty name", w.PathString(p)...)
		}
	}
	if n == 0 {
		ob.Violate("restore-does-not-reread", load.Pos(), "Restore no longer re-reads the table's record after the load")
	}
	ob.NeedFloor(1)
}
