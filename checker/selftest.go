package main

// Self-test: seeded source variants (overlays, /repo is never touched) that each break one
// instance of a rule while still type-checking, plus neutral refactorings that must stay
// silent. One subprocess per variant, bounded parallelism.

import (
	"encoding/json"
	"fmt"
	"os"
	"os/exec"
	"path/filepath"
	"sort"
	"strconv"
	"strings"
	"sync"
)

type Variant struct {
	ID     string   `json:"id"`
	Prop   string   `json:"prop"`
	Edits  []string `json:"edits"`
	Patch  []string `json:"patch,omitempty"` // unified diffs (relative to /verif) applied to the overlay
	Expect string   `json:"expect"`          // obligation id that must report, or "none" for neutral variants
	Note   string   `json:"note,omitempty"`
}

func runSelftest(args []string) int {
	jobs := 6
	filter := ""
	repo := "/repo"
	vfile := filepath.Join(verifDir(), "selftest", "variants.json")
	for i := 0; i < len(args); i++ {
		switch args[i] {
		case "--jobs":
			i++
			jobs, _ = strconv.Atoi(args[i])
		case "--filter":
			i++
			filter = args[i]
		case "--variants":
			i++
			vfile = args[i]
		case "--repo":
			i++
			repo = args[i]
		}
	}
	b, err := os.ReadFile(vfile)
	if err != nil {
		fmt.Fprintln(os.Stderr, err)
		return 2
	}
	var vs []Variant
	if err := json.Unmarshal(b, &vs); err != nil {
		fmt.Fprintln(os.Stderr, "variants:", err)
		return 2
	}
	exe, _ := os.Executable()
	type res struct {
		v      Variant
		status string // ok | MISSED | FALSE-ALARM | skipped | error
		detail string
	}
	var sel []Variant
	for _, v := range vs {
		if filter == "" || strings.Contains(v.ID, filter) || strings.Contains(v.Prop, filter) {
			sel = append(sel, v)
		}
	}
	results := make([]res, len(sel))
	sem := make(chan struct{}, jobs)
	var wg sync.WaitGroup
	for i, v := range sel {
		wg.Add(1)
		go func(i int, v Variant) {
			defer wg.Done()
			sem <- struct{}{}
			defer func() { <-sem }()
			a := []string{"check", v.Prop, "--no-emit", "--repo", repo}
			for _, e := range v.Edits {
				a = append(a, "--edit", e)
			}
			for _, e := range v.Patch {
				a = append(a, "--patch", e)
			}
			cmd := exec.Command(exe, a...)
			cmd.Env = append(os.Environ(), "GOMAXPROCS=4")
			out, err := cmd.CombinedOutput()
			code := 0
			if ee, ok := err.(*exec.ExitError); ok {
				code = ee.ExitCode()
			} else if err != nil {
				results[i] = res{v, "error", err.Error()}
				return
			}
			var found []string
			for _, l := range strings.Split(string(out), "\n") {
				if strings.HasPrefix(l, "FINDING ") {
					f := strings.Fields(l)
					found = append(found, f[1])
				}
			}
			switch {
			case code == 3:
				results[i] = res{v, "skipped", strings.TrimSpace(string(out))}
			case code != 0 && code != 1:
				results[i] = res{v, "error", strings.TrimSpace(string(out))}
			case strings.Contains(string(out), "cannot load"):
				results[i] = res{v, "error", "variant does not type-check: " + strings.TrimSpace(string(out))}
			case v.Expect == "none":
				if len(found) == 0 && code == 0 {
					results[i] = res{v, "ok", "silent"}
				} else {
					results[i] = res{v, "FALSE-ALARM", strings.TrimSpace(string(out))}
				}
			default:
				hit := false
				for _, f := range found {
					if f == v.Expect || strings.HasPrefix(f, v.Expect) {
						hit = true
					}
				}
				if hit {
					results[i] = res{v, "ok", "reported by " + strings.Join(uniq(found), ",")}
				} else {
					results[i] = res{v, "MISSED", "reported: " + strings.Join(uniq(found), ",") + " " + firstLines(string(out), 3)}
				}
			}
		}(i, v)
	}
	wg.Wait()
	bad := 0
	counts := map[string]int{}
	for _, r := range results {
		counts[r.status]++
		if r.status != "ok" && r.status != "skipped" {
			bad++
		}
		fmt.Printf("%-12s %-4s %-40s expect=%-7s %s\n", r.status, r.v.Prop, r.v.ID, r.v.Expect, oneLine(r.detail))
	}
	fmt.Printf("selftest: %d variants: %v\n", len(results), counts)
	if bad > 0 {
		return 1
	}
	return 0
}

func uniq(s []string) []string {
	m := map[string]bool{}
	var out []string
	for _, x := range s {
		if !m[x] {
			m[x] = true
			out = append(out, x)
		}
	}
	sort.Strings(out)
	return out
}

func firstLines(s string, n int) string {
	ls := strings.Split(strings.TrimSpace(s), "\n")
	if len(ls) > n {
		ls = ls[:n]
	}
	return strings.Join(ls, " | ")
}

func oneLine(s string) string {
	s = strings.ReplaceAll(s, "\n", " | ")
	if len(s) > 300 {
		s = s[:300] + "…"
	}
	return s
}

// thoroughSelftest (thorough tier, informational): runs the property's seeded variants - each in
// its own subprocess on an in-memory overlay of the current tree - and records in the evidence
// how many of the breaking variants the rules report and how many neutral ones stay silent.
// Results never produce a VIOLATION line: they show that "0 violations" is not vacuous.
func thoroughSelftest(prop, repo string, r *Report) {
	vfile := filepath.Join(verifDir(), "selftest", "variants.json")
	b, err := os.ReadFile(vfile)
	if err != nil {
		return
	}
	var vs []Variant
	if json.Unmarshal(b, &vs) != nil {
		return
	}
	exe, _ := os.Executable()
	var sel []Variant
	for _, v := range vs {
		if v.Prop == prop {
			sel = append(sel, v)
		}
	}
	type res struct{ status, detail string }
	results := make([]res, len(sel))
	sem := make(chan struct{}, 5)
	var wg sync.WaitGroup
	for i, v := range sel {
		wg.Add(1)
		go func(i int, v Variant) {
			defer wg.Done()
			sem <- struct{}{}
			defer func() { <-sem }()
			a := []string{"check", v.Prop, "--no-emit", "--tier", "quick", "--repo", repo}
			for _, e := range v.Edits {
				a = append(a, "--edit", e)
			}
			for _, e := range v.Patch {
				a = append(a, "--patch", e)
			}
			cmd := exec.Command(exe, a...)
			cmd.Env = append(os.Environ(), "GOMAXPROCS=4", "VERIF_TIER=quick")
			out, err := cmd.CombinedOutput()
			code := 0
			if ee, ok := err.(*exec.ExitError); ok {
				code = ee.ExitCode()
			}
			var found []string
			for _, l := range strings.Split(string(out), "\n") {
				if strings.HasPrefix(l, "FINDING ") {
					found = append(found, strings.Fields(l)[1])
				}
			}
			hit := false
			for _, f := range found {
				if strings.HasPrefix(f, v.Expect) {
					hit = true
				}
			}
			switch {
			case code == 3:
				results[i] = res{"skipped", "does not apply to the current tree"}
			case v.Expect == "none" && len(found) == 0:
				results[i] = res{"silent", ""}
			case v.Expect == "none":
				results[i] = res{"false-alarm", strings.Join(uniq(found), ",")}
			case hit:
				results[i] = res{"reported", strings.Join(uniq(found), ",")}
			default:
				results[i] = res{"missed", strings.Join(uniq(found), ",")}
			}
		}(i, v)
	}
	wg.Wait()
	ob := r.Ob(prop+".selftest", "selftest", "informational (thorough tier): every seeded breaking variant of this property's anchored code is reported by the obligation it names, every behaviour-preserving variant stays silent (in-memory overlays of the current tree, one subprocess each)", "shows that the rules are armed: a rule that matches nothing passes vacuously for ever")
	ob.Tier = "thorough"
	counts := map[string]int{}
	for i, v := range sel {
		counts[results[i].status]++
		ob.SiteS(v.ID + " expect=" + v.Expect + " → " + results[i].status + " " + results[i].detail)
	}
	r.Info["selftest_variants"] = counts
}
