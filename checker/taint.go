package main

// E6: replicated determinism. Forward taint from forbidden sources (clock, randomness,
// environment, host identity, per-replica fields) through def-use edges, local variables,
// struct fields (field-based, flow-insensitive) and calls into module functions, up to sinks.

import (
	"go/types"
	"strings"

	"golang.org/x/tools/go/ssa"
)

var forbiddenSources = map[string]string{
	"time.Now": "wall clock", "time.Since": "wall clock", "time.Until": "wall clock",
	"os.Getenv": "environment", "os.LookupEnv": "environment", "os.Environ": "environment",
	"os.Hostname": "host identity", "os.Getpid": "process identity", "os.Getwd": "environment",
	"runtime.NumCPU": "host identity", "runtime.NumGoroutine": "scheduler state",
}

func forbiddenSource(c *ssa.CallCommon) string {
	n := CalleeName(c)
	if s, ok := forbiddenSources[n]; ok {
		return s
	}
	if strings.HasPrefix(n, "math/rand.") || strings.HasPrefix(n, "math/rand/v2.") || strings.HasPrefix(n, "(*math/rand.Rand).") || strings.HasPrefix(n, "crypto/rand.") {
		return "randomness"
	}
	if strings.HasPrefix(n, "github.com/google/uuid.New") {
		return "randomness"
	}
	return ""
}

type Taint struct {
	w      *World
	scope  map[*ssa.Function]bool // functions to propagate in
	vals   map[ssa.Value]string   // tainted value → reason
	fields map[string]string      // tainted struct field "pkg.Type.field" → reason
	work   []ssa.Value
	// IsSink reports a sink use: instruction `in` uses tainted value v.
	IsSink func(in ssa.Instruction, v ssa.Value) string
	// Quiet: calls whose results do not propagate taint (observers: metrics, logging).
	Hits []TaintHit
}

type TaintHit struct {
	At     ssa.Instruction
	Sink   string
	Reason string
}

func NewTaint(w *World, scope map[*ssa.Function]bool) *Taint {
	return &Taint{w: w, scope: scope, vals: map[ssa.Value]string{}, fields: map[string]string{}}
}

func (t *Taint) Mark(v ssa.Value, reason string) {
	if v == nil {
		return
	}
	if _, ok := t.vals[v]; ok {
		return
	}
	t.vals[v] = reason
	t.work = append(t.work, v)
}

func fieldKey(fa *ssa.FieldAddr) string {
	n, ok := deref(fa.X.Type()).(*types.Named)
	if !ok {
		return ""
	}
	return n.String() + "." + fieldAddrName(fa)
}

func isObserver(name string) bool {
	return strings.Contains(name, "prometheus") || strings.Contains(name, "go.uber.org/zap") || strings.Contains(name, "/log.") || strings.HasPrefix(name, "(*go.uber.org/atomic.")
}

// Run propagates to a fixpoint.
func (t *Taint) Run() {
	for len(t.work) > 0 {
		v := t.work[len(t.work)-1]
		t.work = t.work[:len(t.work)-1]
		reason := t.vals[v]
		refs := v.Referrers()
		if refs == nil {
			continue
		}
		for _, in := range *refs {
			if t.IsSink != nil {
				if s := t.IsSink(in, v); s != "" {
					t.Hits = append(t.Hits, TaintHit{At: in, Sink: s, Reason: reason})
				}
			}
			switch x := in.(type) {
			case *ssa.Store:
				if x.Val != v {
					continue
				}
				switch ad := x.Addr.(type) {
				case *ssa.Alloc:
					// every load of the variable
					if ad.Referrers() != nil {
						for _, r := range *ad.Referrers() {
							if u, ok := r.(*ssa.UnOp); ok && u.X == ssa.Value(ad) {
								t.Mark(u, reason)
							}
							if mc, ok := r.(*ssa.MakeClosure); ok {
								// captured variable: loads of the corresponding free variable
								if f, ok := mc.Fn.(*ssa.Function); ok {
									for i, b := range mc.Bindings {
										if b == ssa.Value(ad) && f.FreeVars[i].Referrers() != nil {
											for _, rr := range *f.FreeVars[i].Referrers() {
												if u, ok := rr.(*ssa.UnOp); ok {
													t.Mark(u, reason)
												}
											}
										}
									}
								}
							}
						}
					}
				case *ssa.FieldAddr:
					k := fieldKey(ad)
					if k != "" {
						if _, ok := t.fields[k]; !ok {
							t.fields[k] = reason
							t.markFieldLoads(k, reason)
						}
					}
				case *ssa.IndexAddr:
					t.Mark(ad.X, reason) // the container
				}
			case *ssa.Call:
				t.call(&x.Call, x, v, reason)
			case *ssa.Defer:
				t.call(&x.Call, nil, v, reason)
			case *ssa.Go:
				t.call(&x.Call, nil, v, reason)
			case *ssa.Return:
				// tainted return value: taint the call sites' results within scope
				fn := x.Parent()
				idx := -1
				for i, r := range x.Results {
					if r == v {
						idx = i
					}
				}
				for _, ci := range t.w.CallersOf(fn) {
					if !t.scope[ci.Parent()] {
						continue
					}
					cv, ok := ci.(ssa.Value)
					if !ok {
						continue
					}
					if fn.Signature.Results().Len() == 1 {
						t.Mark(cv, reason)
					} else if cv.Referrers() != nil {
						for _, r := range *cv.Referrers() {
							if ex, ok := r.(*ssa.Extract); ok && ex.Index == idx {
								t.Mark(ex, reason)
							}
						}
					}
				}
			case ssa.Value:
				switch x.(type) {
				case *ssa.BinOp, *ssa.UnOp, *ssa.Convert, *ssa.ChangeType, *ssa.ChangeInterface, *ssa.MakeInterface, *ssa.Phi,
					*ssa.Extract, *ssa.Slice, *ssa.Index, *ssa.IndexAddr, *ssa.Field, *ssa.FieldAddr, *ssa.TypeAssert, *ssa.Lookup, *ssa.SliceToArrayPointer:
					t.Mark(x, reason)
				}
			}
		}
	}
}

func (t *Taint) markFieldLoads(k, reason string) {
	for fn := range t.scope {
		eachInstr(fn, func(in ssa.Instruction) {
			if fa, ok := in.(*ssa.FieldAddr); ok && fieldKey(fa) == k && fa.Referrers() != nil {
				for _, r := range *fa.Referrers() {
					if u, ok := r.(*ssa.UnOp); ok && u.X == ssa.Value(fa) {
						t.Mark(u, reason)
					}
				}
			}
			if f, ok := in.(*ssa.Field); ok {
				if n, ok := f.X.Type().(*types.Named); ok && n.String()+"."+fieldValName(f) == k {
					t.Mark(f, reason)
				}
			}
		})
	}
}

func (t *Taint) call(c *ssa.CallCommon, res ssa.Value, v ssa.Value, reason string) {
	name := CalleeName(c)
	if isObserver(name) {
		return
	}
	var targets []*ssa.Function
	if c.IsInvoke() {
		targets = t.w.InvokeTargets(c)
	} else if cal := StaticCallee(c); cal != nil {
		targets = []*ssa.Function{cal}
	}
	propagated := false
	for _, cal := range targets {
		if !inModule(cal) || cal.Blocks == nil || !t.scope[cal] {
			continue
		}
		propagated = true
		off := 0
		if c.IsInvoke() {
			off = 1 // receiver is Params[0]
			if c.Value == v && len(cal.Params) > 0 {
				t.Mark(cal.Params[0], reason)
			}
		}
		for i, a := range c.Args {
			if a == v && i+off < len(cal.Params) {
				t.Mark(cal.Params[i+off], reason)
			}
		}
	}
	if !propagated && res != nil {
		// external or out-of-scope callee: its result may depend on the argument
		if _, isTuple := res.Type().(*types.Tuple); isTuple {
			if res.Referrers() != nil {
				for _, r := range *res.Referrers() {
					if ex, ok := r.(*ssa.Extract); ok {
						t.Mark(ex, reason)
					}
				}
			}
		} else {
			t.Mark(res, reason)
		}
		// out-parameters: LittleEndian.PutUint64(buf, x) has args [recv, buf, x]; copy(dst, src)
		if (strings.HasSuffix(name, ".PutUint64") || strings.HasSuffix(name, ".PutUint32")) && len(c.Args) == 3 && c.Args[2] == v {
			t.Mark(c.Args[1], reason)
		}
		if name == "builtin.copy" && len(c.Args) == 2 && c.Args[1] == v {
			t.Mark(c.Args[0], reason)
		}
	}
}
