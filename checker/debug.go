package main

import (
	"fmt"
	"os"
	"strings"

	"golang.org/x/tools/go/ssa"
)

// rvet ssa <rel/pkg> <Func|Type.Method> : dump SSA of a function and its closures (development aid).
func init() {
	if len(os.Args) >= 4 && os.Args[1] == "ssa" {
		repo := "/repo"
		if len(os.Args) >= 6 && os.Args[4] == "--repo" {
			repo = os.Args[5]
		}
		w, err := LoadWorld(repo, nil, "quick", "")
		if err != nil {
			fmt.Println(err)
			os.Exit(1)
		}
		fn := w.Func(os.Args[2], os.Args[3])
		if fn == nil {
			fmt.Println("not found")
			os.Exit(1)
		}
		for _, f := range withClosures(fn) {
			dumpFn(w, f)
		}
		os.Exit(0)
	}
}

func dumpFn(w *World, f *ssa.Function) {
	fmt.Printf("=== %s  (%s)\n", f.String(), w.Pos(f.Pos()))
	c := &ExprCtx{}
	for _, b := range f.Blocks {
		var succ []string
		for _, s := range b.Succs {
			succ = append(succ, fmt.Sprint(s.Index))
		}
		fmt.Printf(" b%d: %s -> [%s]\n", b.Index, b.Comment, strings.Join(succ, ","))
		for _, in := range b.Instrs {
			s := in.String()
			if v, ok := in.(ssa.Value); ok {
				s = v.Name() + " = " + s
			}
			extra := ""
			if iff, ok := in.(*ssa.If); ok {
				if l, ok := c.CondLit(iff.Cond); ok {
					extra = "    // T: " + l.String()
				} else {
					extra = "    // opaque"
				}
			}
			fmt.Printf("    %-70s %s%s\n", s, w.Pos(in.Pos()), extra)
		}
	}
}
