package main

// Escape of pooled memory: a slice obtained from a pooled buffer (bufferPool.Get() …
// defer bufferPool.Put()) must not outlive the function - it must not be returned or stored
// into an object, only used synchronously (call arguments, copy source).

import (
	"strings"

	"golang.org/x/tools/go/ssa"
)

func isPoolGet(c *ssa.CallCommon) bool {
	n := CalleeName(c)
	return strings.HasSuffix(n, "bpool.SizedBufferPool).Get") || strings.HasSuffix(n, "bpool.BufferPool).Get") || n == "(*sync.Pool).Get"
}

type pooledEscape struct {
	At   ssa.Instruction
	What string
}

// pooledEscapes lists the places in fn where bytes of a pooled buffer escape.
func pooledEscapes(fn *ssa.Function) (escapes []pooledEscape, nPooled int) {
	// pooled buffer values: results of pool Get, plus loads of locals they were stored to
	var bufs []ssa.Value
	eachInstr(fn, func(in ssa.Instruction) {
		if c, ok := in.(*ssa.Call); ok && isPoolGet(&c.Call) {
			bufs = append(bufs, c)
		}
	})
	if len(bufs) == 0 {
		return nil, 0
	}
	isPooled := func(v ssa.Value) bool {
		for _, b := range bufs {
			if sameValue(v, b) {
				return true
			}
		}
		return false
	}
	tainted := map[ssa.Value]bool{}
	var work []ssa.Value
	mark := func(v ssa.Value) {
		if !tainted[v] {
			tainted[v] = true
			work = append(work, v)
		}
	}
	for _, f := range withClosures(fn) {
		eachInstr(f, func(in ssa.Instruction) {
			if c, ok := in.(*ssa.Call); ok && CalleeName(&c.Call) == "(*bytes.Buffer).Bytes" && isPooled(c.Call.Args[0]) {
				nPooled++
				mark(c)
			}
		})
	}
	for len(work) > 0 {
		v := work[len(work)-1]
		work = work[:len(work)-1]
		if v.Referrers() == nil {
			continue
		}
		for _, r := range *v.Referrers() {
			switch x := r.(type) {
			case *ssa.Phi, *ssa.Slice, *ssa.ChangeType, *ssa.Convert:
				if _, isConv := x.(*ssa.Convert); isConv {
					continue // string(b) copies
				}
				mark(x.(ssa.Value))
			case *ssa.Return:
				escapes = append(escapes, pooledEscape{x, "returned"})
			case *ssa.Store:
				if x.Val != v {
					continue
				}
				switch ad := x.Addr.(type) {
				case *ssa.Alloc:
					if ad.Referrers() != nil {
						for _, rr := range *ad.Referrers() {
							if u, ok := rr.(*ssa.UnOp); ok && u.X == ssa.Value(ad) {
								mark(u)
							}
						}
					}
				case *ssa.FieldAddr:
					escapes = append(escapes, pooledEscape{x, "stored into " + typeString(deref(ad.X.Type())) + "." + fieldAddrName(ad)})
				case *ssa.IndexAddr:
					escapes = append(escapes, pooledEscape{x, "stored into an element of " + Expr(ad.X)})
				case *ssa.Global:
					escapes = append(escapes, pooledEscape{x, "stored into package-level " + ad.Name()})
				}
			case *ssa.MakeClosure:
				escapes = append(escapes, pooledEscape{x, "captured by a closure"})
			case *ssa.Go:
				escapes = append(escapes, pooledEscape{x, "passed to a goroutine"})
			case *ssa.Send:
				escapes = append(escapes, pooledEscape{x, "sent on a channel"})
			}
		}
	}
	return
}

// checkPooledEscapes applies the rule to every function of the given module packages.
func checkPooledEscapes(w *World, ob *Ob, rels ...string) {
	for _, fn := range w.ModFuncs() {
		if fn.Parent() != nil || isGenerated(fn) || fn.Package() == nil {
			continue
		}
		okPkg := false
		for _, rel := range rels {
			if fn.Package().Pkg.Path() == modPath+"/"+rel {
				okPkg = true
			}
		}
		if !okPkg {
			continue
		}
		esc, n := pooledEscapes(fn)
		if n > 0 {
			ob.Site(fn.Pos(), FnName(fn)+" uses "+itoa(n)+" slice(s) of pooled buffers")
		}
		for _, e := range esc {
			ob.Violate("pooled-bytes-escape@"+FnName(fn), instrPos(e.At), "bytes of a pooled buffer are "+e.What+" in "+FnName(fn)+": they are overwritten by the next user of the pool while still referenced (range bounds of a lazily opened iterator drift)")
		}
	}
}
