package main

// Role-based anchors of the table state machine (DESIGN §5). Roles are resolved through
// external/generated API touch points wherever possible; the qualified name is a fallback.

import (
	"go/types"
	"strings"

	"golang.org/x/tools/go/ssa"
)

const (
	smPath  = "github.com/lni/dragonboat/v4/statemachine"
	keyRel  = "storage/table/key"
	keyPath = modPath + "/" + keyRel
)

var batchWrites = map[string]bool{}
var dbWrites = map[string]bool{}

func init() {
	for _, m := range []string{"Set", "Delete", "DeleteRange", "Merge", "SingleDelete", "DeleteSized", "SetDeferred", "DeleteDeferred", "LogData", "RangeKeySet", "RangeKeyUnset", "RangeKeyDelete"} {
		batchWrites["(*"+pebblePath+".Batch)."+m] = true
		dbWrites["(*"+pebblePath+".DB)."+m] = true
	}
	for _, m := range []string{"Apply", "Ingest", "IngestWithStats", "IngestAndExcise", "IngestExternalFiles"} {
		dbWrites["(*"+pebblePath+".DB)."+m] = true
	}
}

const (
	batchCommit = "(*" + pebblePath + ".Batch).Commit"
	batchApply  = "(*" + pebblePath + ".Batch).Apply"
)

type FsmA struct {
	w        *World
	FSM      *types.Named // *FSM implements IOnDiskStateMachine
	Update   *ssa.Function
	Lookup   *ssa.Function
	Open     *ssa.Function
	Ctx      *types.Named // apply context struct (has a *pebble.Batch field)
	BatchFld string       // name of the *pebble.Batch field
	DBFld    string       // name of the *pebble.DB field
	CommitFn *ssa.Function
	Indexed  *ssa.Function // make-indexed function
	ParseFn  *ssa.Function // stores Entry.Index into the context
	CmdIface *types.Named
	Handlers []*ssa.Function // handle methods of the command implementers
	Problems []string
}

func (w *World) FsmAnchors() *FsmA {
	a := &FsmA{w: w}
	p := w.Pkg(fsmRel)
	smp := w.ByPath[smPath]
	if p == nil || smp == nil {
		a.Problems = append(a.Problems, "package "+fsmRel+" or dragonboat statemachine not loaded")
		return a
	}
	ion, _ := smp.Types.Scope().Lookup("IOnDiskStateMachine").Type().Underlying().(*types.Interface)
	sc := p.Types.Scope()
	for _, n := range sc.Names() {
		tn, ok := sc.Lookup(n).(*types.TypeName)
		if !ok {
			continue
		}
		nt, ok := tn.Type().(*types.Named)
		if !ok {
			continue
		}
		if ion != nil && types.Implements(types.NewPointer(nt), ion) {
			if _, isI := nt.Underlying().(*types.Interface); !isI {
				a.FSM = nt
			}
		}
		if st, ok := nt.Underlying().(*types.Struct); ok {
			bf, df := "", ""
			for i := 0; i < st.NumFields(); i++ {
				if typeIs(st.Field(i).Type(), pebblePath, "Batch") {
					bf = st.Field(i).Name()
				}
				if typeIs(st.Field(i).Type(), pebblePath, "DB") {
					df = st.Field(i).Name()
				}
			}
			if df == "" && bf != "" {
				// the database behind an interface of the package that *pebble.DB satisfies
				if dbT := pebbleDBPtr(w); dbT != nil {
					for i := 0; i < st.NumFields(); i++ {
						if it, ok := st.Field(i).Type().Underlying().(*types.Interface); ok && it.NumMethods() > 0 && types.Implements(dbT, it) {
							df = st.Field(i).Name()
						}
					}
				}
			}
			if bf != "" && df != "" {
				a.Ctx, a.BatchFld, a.DBFld = nt, bf, df
			}
		}
	}
	if a.FSM == nil {
		a.Problems = append(a.Problems, "no type implementing statemachine.IOnDiskStateMachine in "+fsmRel)
		return a
	}
	if a.Ctx == nil {
		a.Problems = append(a.Problems, "no apply-context struct (fields *pebble.Batch and *pebble.DB) in "+fsmRel)
		return a
	}
	pt := types.NewPointer(a.FSM)
	a.Update = w.MethodOf(pt, "Update")
	a.Lookup = w.MethodOf(pt, "Lookup")
	a.Open = w.MethodOf(pt, "Open")
	// command interface: interface in the package with a method taking *Ctx
	for _, n := range sc.Names() {
		tn, ok := sc.Lookup(n).(*types.TypeName)
		if !ok {
			continue
		}
		nt, ok := tn.Type().(*types.Named)
		if !ok {
			continue
		}
		it, ok := nt.Underlying().(*types.Interface)
		if !ok || it.NumMethods() != 1 {
			continue
		}
		sig := it.Method(0).Type().(*types.Signature)
		if sig.Params().Len() == 1 && types.Identical(sig.Params().At(0).Type(), types.NewPointer(a.Ctx)) {
			a.CmdIface = nt
			for _, t := range w.Implementers(it) {
				if f := w.MethodOf(t, it.Method(0).Name()); f != nil {
					a.Handlers = append(a.Handlers, f)
				}
			}
		}
	}
	if a.CmdIface == nil {
		a.Problems = append(a.Problems, "no command interface (single method taking the apply context) found")
	}
	// functions with the context as receiver/first parameter
	sp := w.SSAPkg(fsmRel)
	for _, fn := range w.ModFuncs() {
		if fn.Package() != sp || fn.Parent() != nil || len(fn.Params) == 0 {
			continue
		}
		if !types.Identical(fn.Params[0].Type(), types.NewPointer(a.Ctx)) {
			continue
		}
		if len(callsIn(fn, false, batchCommit)) > 0 {
			a.CommitFn = fn
		}
		if len(callsIn(fn, false, "(*"+pebblePath+".DB).NewIndexedBatch")) > 0 {
			a.Indexed = fn
		}
		// parse step: takes the context and the entry being applied
		if len(fn.Params) == 2 && typeIs(fn.Params[1].Type(), smPath, "Entry") {
			a.ParseFn = fn
		}
	}
	if a.CommitFn == nil {
		a.Problems = append(a.Problems, "no commit function (context method calling Batch.Commit)")
	}
	if a.Indexed == nil {
		a.Problems = append(a.Problems, "no make-indexed function (context method calling DB.NewIndexedBatch)")
	}
	if a.ParseFn == nil {
		a.Problems = append(a.Problems, "no parse step (function taking the apply context and an sm.Entry)")
	}
	return a
}

// isCtxFieldLoad: v is a load of field `fld` of a value of the apply context type.
func (a *FsmA) isCtxFieldLoad(v ssa.Value, fld string) bool {
	u, ok := v.(*ssa.UnOp)
	if !ok {
		return false
	}
	fa, ok := u.X.(*ssa.FieldAddr)
	if !ok {
		return false
	}
	return types.Identical(deref(fa.X.Type()), a.Ctx) && fieldAddrName(fa) == fld
}

func (a *FsmA) isCtxFieldAddr(v ssa.Value, fld string) bool {
	fa, ok := v.(*ssa.FieldAddr)
	if !ok {
		return false
	}
	return types.Identical(deref(fa.X.Type()), a.Ctx) && fieldAddrName(fa) == fld
}

// ctxIndexField returns the name of the context's uint64 field stored from Entry.Index.
func (a *FsmA) ctxIndexField() string {
	st := a.Ctx.Underlying().(*types.Struct)
	name, n := "", 0
	for i := 0; i < st.NumFields(); i++ {
		if b, ok := st.Field(i).Type().(*types.Basic); ok && b.Kind() == types.Uint64 {
			name = st.Field(i).Name()
			n++
		}
	}
	if n == 1 {
		return name
	}
	// several uint64 fields (bookkeeping added next to the index): the index is the one the parse
	// function stores from the entry's Index on every path and the commit function reads
	var good []string
	for i := 0; i < st.NumFields(); i++ {
		b, ok := st.Field(i).Type().(*types.Basic)
		if !ok || b.Kind() != types.Uint64 || a.ParseFn == nil || a.CommitFn == nil {
			continue
		}
		f := st.Field(i).Name()
		isStore := func(in ssa.Instruction) bool {
			s, ok := in.(*ssa.Store)
			if !ok {
				return false
			}
			fa, ok := s.Addr.(*ssa.FieldAddr)
			return ok && types.Identical(deref(fa.X.Type()), a.Ctx) && fieldAddrName(fa) == f && strings.HasSuffix(Expr(s.Val), ".Index")
		}
		stored := false
		eachInstr(a.ParseFn, func(in ssa.Instruction) {
			if isStore(in) {
				stored = true
			}
		})
		if !stored || (&Walk{Barrier: isStore, Target: isAnyReturn}).Find(entry(a.ParseFn)) != nil {
			continue
		}
		read := false
		eachInstr(a.CommitFn, func(in ssa.Instruction) {
			if fa, ok := in.(*ssa.FieldAddr); ok && types.Identical(deref(fa.X.Type()), a.Ctx) && fieldAddrName(fa) == f {
				read = true
			}
		})
		if read {
			good = append(good, f)
		}
	}
	if len(good) == 1 {
		return good[0]
	}
	return ""
}

// ctxLeaderField: the *uint64 field of the context.
func (a *FsmA) ctxLeaderField() string {
	st := a.Ctx.Underlying().(*types.Struct)
	for i := 0; i < st.NumFields(); i++ {
		if p, ok := st.Field(i).Type().(*types.Pointer); ok {
			if b, ok := p.Elem().(*types.Basic); ok && b.Kind() == types.Uint64 {
				return st.Field(i).Name()
			}
		}
	}
	return ""
}

// applyReach: module functions reachable from Update.
func (a *FsmA) applyReach() map[*ssa.Function]bool {
	return a.w.ReachModIfaces([]*ssa.Function{a.Update}, func(f *ssa.Function) bool { return isGenerated(f) })
}

func isFsmFunc(fn *ssa.Function) bool {
	for f := fn; f != nil; f = f.Parent() {
		if f.Package() != nil {
			return strings.HasSuffix(f.Package().Pkg.Path(), "/"+fsmRel)
		}
	}
	return false
}

// CompareHelper: the fsm function (pebble.Reader, []*regattapb.Compare) → (bool, error).
func (a *FsmA) CompareHelper() *ssa.Function {
	sp := a.w.SSAPkg(fsmRel)
	if sp == nil {
		return nil
	}
	var cmpFn *ssa.Function
	for _, m := range sp.Members {
		fn, ok := m.(*ssa.Function)
		if !ok || len(fn.Params) != 2 {
			continue
		}
		if !typeIs(fn.Params[0].Type(), pebblePath, "Reader") {
			continue
		}
		if s, ok := fn.Params[1].Type().Underlying().(*types.Slice); ok && typeIs(s.Elem(), pbPkg, "Compare") {
			cmpFn = fn
		}
	}
	return cmpFn
}

// ROTxn: the function that evaluates a read-only transaction: Lookup itself, or the helper
// (statically called from Lookup, outside the apply path) that calls the compare helper.
func (a *FsmA) ROTxn() *ssa.Function {
	cmpFn := a.CompareHelper()
	if cmpFn == nil || a.Lookup == nil {
		return a.Lookup
	}
	apply := a.applyReach()
	seen := map[*ssa.Function]bool{}
	var found *ssa.Function
	var visit func(fn *ssa.Function, d int)
	visit = func(fn *ssa.Function, d int) {
		if fn == nil || fn.Blocks == nil || seen[fn] || d > 3 || apply[fn] || !inModule(fn) {
			return
		}
		seen[fn] = true
		eachInstr(fn, func(in ssa.Instruction) {
			c := plainCall(in)
			if c == nil {
				return
			}
			cal := StaticCallee(c)
			if cal == cmpFn && found == nil {
				found = fn
			}
			visit(cal, d+1)
		})
	}
	visit(a.Lookup, 0)
	if found == nil {
		return a.Lookup
	}
	return found
}

// pebbleDBPtr: the type *pebble.DB of the loaded program (nil if pebble is not loaded).
func pebbleDBPtr(w *World) types.Type {
	p := w.ByPath[pebblePath]
	if p == nil || p.Types == nil {
		return nil
	}
	tn, ok := p.Types.Scope().Lookup("DB").(*types.TypeName)
	if !ok {
		return nil
	}
	return types.NewPointer(tn.Type())
}
