package main

// Normalisation of helpers that did not exist on the reviewed tree.
//
// The rules are written against the functions of the reviewed tree (reviewed_funcs.txt lists
// them). A behaviour-preserving refactoring typically moves part of such a function into a new
// helper; the rule then no longer sees the code where it looks for it. Before the rules run, every
// call of a module function that is NOT on the reviewed list is therefore inlined back into its
// caller at source level (in an in-memory overlay, /repo is not touched):
//
//	x, err := h(a, b)      →   var x T; var err error
//	                           L: switch { default: p, q := P(a), Q(b); …body…; x, err = v, e; break L }
//	return h(a, b)         →   { p, q := P(a), Q(b); …body with its own returns… }
//	anything else, or a helper with defer / named results / labels
//	                       →   func(p P, q Q) (T, error) { …body… }(a, b)      (immediately invoked)
//
// The new helper's declaration stays; only calls are replaced. On the reviewed tree itself the
// list matches and nothing is rewritten. A function is only inlined into callers of its own
// package, never into go/defer statements, and never if a name it uses is shadowed at the call
// site. If the normalised source does not type-check the un-normalised program is analysed.

import (
	"bufio"
	"bytes"
	"fmt"
	"go/ast"
	"go/parser"
	"go/printer"
	"go/token"
	"go/types"
	"os"
	"path/filepath"
	"reflect"
	"sort"
	"strings"

	"golang.org/x/tools/go/ast/astutil"
	"golang.org/x/tools/go/packages"
	"golang.org/x/tools/go/types/typeutil"
)

func funcKey(pkgPath string, d *ast.FuncDecl) string {
	k := pkgPath + "."
	if d.Recv != nil && len(d.Recv.List) == 1 {
		t := d.Recv.List[0].Type
		for {
			switch x := t.(type) {
			case *ast.StarExpr:
				t = x.X
				continue
			case *ast.ParenExpr:
				t = x.X
				continue
			case *ast.IndexExpr:
				t = x.X
				continue
			case *ast.IndexListExpr:
				t = x.X
				continue
			}
			break
		}
		if id, ok := t.(*ast.Ident); ok {
			k += id.Name + "."
		}
	}
	return k + d.Name.Name
}

func loadReviewedFuncs() map[string]bool {
	path := filepath.Join(verifDir(), "reviewed_funcs.txt")
	if alt := os.Getenv("RVET_REVIEWED"); alt != "" {
		path = alt
	}
	f, err := os.Open(path)
	if err != nil {
		return nil
	}
	defer f.Close()
	m := map[string]bool{}
	sc := bufio.NewScanner(f)
	sc.Buffer(make([]byte, 1<<20), 1<<22)
	for sc.Scan() {
		l := sc.Text()
		if strings.TrimSpace(l) == "" || strings.HasPrefix(l, "#") {
			continue
		}
		key, data := l, ""
		if i := strings.IndexByte(l, '\t'); i >= 0 {
			key, data = l[:i], l[i+1:]
		}
		m[key] = true
		if data != "" {
			reviewedInfo[key] = data
		}
	}
	return m
}

// listFuncs prints the function keys of the module (rvet funcs > reviewed_funcs.txt), and the
// identifying data of types, fields, signatures, variables and constants (rename.go).
func listFuncs(pkgs map[string]*packages.Package) []string {
	var out []string
	for path, p := range pkgs {
		for _, f := range p.Syntax {
			for _, d := range f.Decls {
				if fd, ok := d.(*ast.FuncDecl); ok {
					out = append(out, funcKey(path, fd))
				}
			}
		}
	}
	for path, p := range pkgs {
		if p.Types == nil {
			continue
		}
		for _, name := range p.Types.Scope().Names() {
			if tn, ok := p.Types.Scope().Lookup(name).(*types.TypeName); ok && !tn.IsAlias() && strings.HasSuffix(path, "/regattapb") {
				out = append(out, "type "+path+"."+name)
			}
		}
	}
	out = append(out, reviewedLines(pkgs)...)
	sort.Strings(out)
	return out
}

// litSigs: signatures of the function literals the inliner is working inside (keyed by the pseudo
// declaration that stands for the literal).
var litSigs = map[*ast.FuncDecl]*types.Signature{}

// inlSeq numbers the labels and temporaries the inliner introduces (never reset).
var inlSeq = 0

// ifaceAliases: see singleImplNewIfaces (set by the loader before the normaliser runs).
var ifaceAliases map[*types.TypeName]types.Type

type newHelper struct {
	key      string
	decl     *ast.FuncDecl
	obj      *types.Func
	pkg      *packages.Package
	file     *ast.File
	unusable string                  // reason, "" if it can be inlined in statement form
	mustLit  bool                    // only as an immediately invoked function literal
	free     map[string]types.Object // package-level / imported names the declaration uses
	imports  map[string]string       // local package name → import path used by the declaration
	// wrapper: the body is one `return expr` that mentions nothing unexported of its own package:
	// a call can be replaced by expr with the parameters substituted, in any package
	wrapper     bool
	wrapImports map[string]string // imports the wrapper's expression needs
	tparams     []string          // names of the type parameters of a generic function
	// localWrapper: the body is one `return expr` without function literals: inside its own
	// package a call is replaced by expr with the arguments substituted
	localWrapper bool
	// otherLit: needs the literal form for a reason other than a defer statement (named
	// results, labels, goto, recover); a helper whose only obstacle is `defer` can still be
	// spliced in where its call is the operand of a return statement
	otherLit bool
}

// normalizeNewHelpers returns overlay contents for the files in which calls were inlined.
func normalizeNewHelpers(fset *token.FileSet, mod map[string]*packages.Package, reviewed map[string]bool) (map[string][]byte, []string) {
	helpers := map[*types.Func]*newHelper{}
	var notes []string
	renamedFiles, rnotes := renameBack(mod, reviewed)
	notes = append(notes, rnotes...)
	// new single-implementation interfaces are declared as aliases of the concrete type
	for tn, conc := range ifaceAliases {
		for _, p := range mod {
			if p.Types != tn.Pkg() {
				continue
			}
			for _, f := range p.Syntax {
				for _, d := range f.Decls {
					gd, ok := d.(*ast.GenDecl)
					if !ok || gd.Tok != token.TYPE {
						continue
					}
					for _, sp := range gd.Specs {
						ts, ok := sp.(*ast.TypeSpec)
						if !ok || p.TypesInfo.Defs[ts.Name] != types.Object(tn) {
							continue
						}
						e, ok := typeExprIn(conc, f, p)
						if !ok {
							continue
						}
						ts.Assign = ts.Name.End()
						ts.Type = e
						renamedFiles[f] = p
						notes = append(notes, "normalisation: interface "+tn.Name()+" (not on the reviewed tree, only ever holding a "+types.TypeString(conc, pathQualifier)+") declared as an alias of that type")
					}
				}
			}
		}
	}
	notes = append(notes, fixSignatures(mod, reviewed, renamedFiles)...)
	notes = append(notes, rewriteFuncTables(mod, renamedFiles)...)
	for path, p := range mod {
		for _, f := range p.Syntax {
			for _, d := range f.Decls {
				fd, ok := d.(*ast.FuncDecl)
				if !ok || fd.Body == nil || reviewed[funcKey(path, fd)] {
					continue
				}
				obj, _ := p.TypesInfo.Defs[fd.Name].(*types.Func)
				if obj == nil || fd.Name.Name == "init" || fd.Name.Name == "main" {
					continue
				}
				h := &newHelper{key: funcKey(path, fd), decl: fd, obj: obj, pkg: p, file: f, free: map[string]types.Object{}, imports: map[string]string{}}
				analyseHelper(h)
				analyseWrapper(h)
				helpers[obj] = h
			}
		}
	}
	if os.Getenv("RVET_DEBUG_NORM") != "" {
		for _, h := range helpers {
			fmt.Fprintf(os.Stderr, "new helper %s unusable=%q mustLit=%v free=%d\n", h.key, h.unusable, h.mustLit, len(h.free))
		}
	}
	changed := map[*ast.File]*packages.Package{}
	for f, p := range renamedFiles {
		changed[f] = p
	}
	nInlined := 0
	for pass := 0; pass < 6; pass++ {
		progress := false
		for _, p := range mod {
			for _, f := range p.Syntax {
				n := inlineInFile(fset, p, f, helpers)
				if n > 0 {
					changed[f] = p
					nInlined += n
					progress = true
				}
			}
		}
		if !progress {
			break
		}
	}
	if nInlined == 0 && len(changed) == 0 {
		return nil, nil
	}
	if nInlined > 0 {
		var names []string
		for _, h := range helpers {
			names = append(names, h.key)
		}
		sort.Strings(names)
		notes = append(notes, fmt.Sprintf("normalisation: %d call(s) of %d function(s) not on the reviewed list inlined into their callers (%s)", nInlined, len(helpers), strings.Join(names, ", ")))
	}
	out := map[string][]byte{}
	for f := range changed {
		// keep only compiler directives among the comments
		var keep []*ast.CommentGroup
		for _, cg := range f.Comments {
			for _, c := range cg.List {
				if strings.HasPrefix(c.Text, "//go:") || strings.HasPrefix(c.Text, "// +build") {
					keep = append(keep, cg)
					break
				}
			}
		}
		f.Comments = keep
		var buf bytes.Buffer
		cfg := printer.Config{Mode: printer.UseSpaces | printer.TabIndent | printer.SourcePos, Tabwidth: 8}
		if err := cfg.Fprint(&buf, fset, f); err != nil {
			notes = append(notes, "normalisation: printing failed: "+err.Error())
			return nil, notes
		}
		out[fset.Position(f.Package).Filename] = buf.Bytes()
	}
	return out, notes
}

func analyseHelper(h *newHelper) {
	fd := h.decl
	info := h.pkg.TypesInfo
	if fd.Type.TypeParams != nil && len(fd.Type.TypeParams.List) > 0 {
		// a generic function: inlined with the type arguments of the call written out, provided
		// nothing in it declares another thing under a type parameter's name
		for _, fl := range fd.Type.TypeParams.List {
			for _, n := range fl.Names {
				h.tparams = append(h.tparams, n.Name)
			}
		}
		isTP := map[string]bool{}
		for _, n := range h.tparams {
			isTP[n] = true
		}
		ast.Inspect(fd, func(n ast.Node) bool {
			if id, ok := n.(*ast.Ident); ok && isTP[id.Name] {
				if o := info.Defs[id]; o != nil {
					if tn, ok := o.(*types.TypeName); !ok || !isTypeParam(tn.Type()) {
						h.unusable = "generic: type parameter name shadowed"
					}
				}
			}
			return true
		})
	}
	if fd.Recv != nil {
		// methods of generic types
		if sig, ok := h.obj.Type().(*types.Signature); ok && sig.RecvTypeParams() != nil && sig.RecvTypeParams().Len() > 0 {
			h.unusable = "generic receiver"
		}
	}
	if fd.Type.Params != nil {
		for _, fl := range fd.Type.Params.List {
			if _, ok := fl.Type.(*ast.Ellipsis); ok {
				h.unusable = "variadic"
			}
		}
	}
	if fd.Type.Results != nil {
		for _, fl := range fd.Type.Results.List {
			if len(fl.Names) > 0 {
				h.mustLit = true // named results
				h.otherLit = true
			}
		}
	}
	ast.Inspect(fd.Body, func(n ast.Node) bool {
		switch x := n.(type) {
		case *ast.FuncLit:
			// uses inside literals still count for free names, but not for control flow
			ast.Inspect(x, func(m ast.Node) bool {
				if id, ok := m.(*ast.Ident); ok {
					noteFree(h, info, id)
				}
				return true
			})
			return false
		case *ast.DeferStmt:
			h.mustLit = true
		case *ast.LabeledStmt:
			h.mustLit = true
			h.otherLit = true
		case *ast.BranchStmt:
			if x.Tok == token.GOTO {
				h.mustLit = true
				h.otherLit = true
			}
		case *ast.CallExpr:
			if id, ok := x.Fun.(*ast.Ident); ok && id.Name == "recover" {
				h.mustLit = true
				h.otherLit = true
			}
			if typeutil.Callee(info, x) == types.Object(h.obj) {
				h.unusable = "recursive"
			}
		case *ast.Ident:
			noteFree(h, info, x)
		}
		return true
	})
	ast.Inspect(fd.Type, func(n ast.Node) bool {
		if id, ok := n.(*ast.Ident); ok {
			noteFree(h, info, id)
		}
		return true
	})
	if fd.Recv != nil {
		ast.Inspect(fd.Recv, func(n ast.Node) bool {
			if id, ok := n.(*ast.Ident); ok {
				noteFree(h, info, id)
			}
			return true
		})
	}
}

// analyseWrapper decides whether h is a pure forwarding wrapper (see newHelper.wrapper).
func analyseWrapper(h *newHelper) {
	fd := h.decl
	if h.unusable != "" || h.mustLit || len(fd.Body.List) != 1 {
		return
	}
	ret, ok := fd.Body.List[0].(*ast.ReturnStmt)
	if !ok || len(ret.Results) != 1 {
		return
	}
	info := h.pkg.TypesInfo
	okAll := true
	okLocal := len(h.tparams) == 0
	uses := map[types.Object]int{}
	h.wrapImports = map[string]string{}
	ast.Inspect(ret.Results[0], func(n ast.Node) bool {
		switch x := n.(type) {
		case *ast.FuncLit:
			okAll = false
			okLocal = false
			return false
		case *ast.Ident:
			o := info.Uses[x]
			if o == nil {
				return true
			}
			uses[o]++
			if pn, isPkg := o.(*types.PkgName); isPkg {
				h.wrapImports[pn.Name()] = pn.Imported().Path()
			}
			switch oo := o.(type) {
			case *types.PkgName, *types.Nil, *types.Builtin:
			case *types.Const:
				if oo.Pkg() == h.pkg.Types && !oo.Exported() {
					okAll = false
				}
			default:
				if o.Pkg() == h.pkg.Types && o.Parent() == h.pkg.Types.Scope() {
					okAll = false // a package-level name of its own package: would need qualifying
				}
				if v, isVar := o.(*types.Var); isVar && v.IsField() && !v.Exported() {
					okAll = false
				}
				if f, isF := o.(*types.Func); isF && !f.Exported() && f.Pkg() == h.pkg.Types {
					okAll = false
				}
			}
		}
		return true
	})
	// each parameter at most once (arguments are substituted, not bound)
	sig := h.obj.Type().(*types.Signature)
	for i := 0; i < sig.Params().Len(); i++ {
		if uses[sig.Params().At(i)] > 1 {
			okAll = false
		}
	}
	h.wrapper = okAll && len(h.tparams) == 0
	h.localWrapper = okLocal
}

func noteFree(h *newHelper, info *types.Info, id *ast.Ident) {
	obj := info.Uses[id]
	if obj == nil {
		return
	}
	if _, isPkg := obj.(*types.PkgName); !isPkg && obj.Pkg() != h.pkg.Types {
		return // a qualified name (pkg.Name) or a universe name: only the qualifier matters
	}
	if pn, ok := obj.(*types.PkgName); ok {
		h.imports[pn.Name()] = pn.Imported().Path()
		h.free[id.Name] = obj
		return
	}
	if obj.Pkg() != nil && obj.Parent() == obj.Pkg().Scope() {
		h.free[id.Name] = obj
	}
}

// inlineInFile replaces, in one file, the calls of leaf helpers (helpers whose body holds no call
// of a helper any more). Returns the number of calls replaced.
func inlineInFile(fset *token.FileSet, p *packages.Package, f *ast.File, helpers map[*types.Func]*newHelper) int {
	info := p.TypesInfo
	isLeaf := func(h *newHelper) bool {
		leaf := true
		ast.Inspect(h.decl.Body, func(n ast.Node) bool {
			if c, ok := n.(*ast.CallExpr); ok {
				if fn, ok := typeutil.Callee(info, c).(*types.Func); ok {
					if hh := helpers[fn]; hh != nil && hh.unusable == "" && hh != h && hh.pkg == h.pkg {
						leaf = false
					}
				}
			}
			return true
		})
		return leaf
	}
	target := func(c *ast.CallExpr) *newHelper {
		fn, ok := typeutil.Callee(info, c).(*types.Func)
		if !ok {
			return nil
		}
		h := helpers[fn]
		if h == nil || h.unusable != "" || h.pkg != p || !isLeaf(h) {
			return nil
		}
		// names the helper uses must mean the same at the call site
		sc := p.Types.Scope().Innermost(c.Pos())
		if sc == nil {
			return nil
		}
		dbg := os.Getenv("RVET_DEBUG_NORM") != ""
		for name, obj := range h.free {
			if dbg {
				_, o := sc.LookupParent(name, c.Pos())
				fmt.Fprintf(os.Stderr, "  site %s: name %s -> %v (want %v)\n", h.key, name, o, obj)
			}
			if pn, isPkg := obj.(*types.PkgName); isPkg {
				_, o := sc.LookupParent(name, c.Pos())
				if o2, ok := o.(*types.PkgName); ok && o2.Imported().Path() == pn.Imported().Path() {
					continue
				}
				if o == nil && h.file != f {
					continue // import added below
				}
				return nil
			}
			if _, o := sc.LookupParent(name, c.Pos()); o != obj {
				return nil
			}
		}
		return h
	}
	// a forwarding wrapper may be replaced in any package of the module
	wrapperTarget := func(c *ast.CallExpr) *newHelper {
		fn, ok := typeutil.Callee(info, c).(*types.Func)
		if !ok {
			return nil
		}
		h := helpers[fn]
		if h == nil || !h.wrapper {
			return nil
		}
		// imported package names the expression uses must not be shadowed here
		sc := p.Types.Scope().Innermost(c.Pos())
		if sc == nil {
			return nil
		}
		for name, obj := range h.free {
			if pn, isPkg := obj.(*types.PkgName); isPkg {
				_, o := sc.LookupParent(name, c.Pos())
				if o2, ok := o.(*types.PkgName); ok && o2.Imported().Path() == pn.Imported().Path() {
					continue
				}
				if o == nil {
					continue
				}
				return nil
			}
		}
		return h
	}
	n := 0
	label := inlSeq // names are unique over files, passes and rounds: an inner temporary must never shadow the one an outer inlining assigns to
	defer func() { inlSeq = label }()
	var ensureSet func(h *newHelper, set map[string]string) bool
	ensureImports := func(h *newHelper) bool { return ensureSet(h, h.imports) }
	ensureSet = func(h *newHelper, set map[string]string) bool {
		if h.file == f {
			return true
		}
		for name, path := range set {
			found := false
			for _, im := range f.Imports {
				ipath := strings.Trim(im.Path.Value, `"`)
				if ipath == path {
					local := ""
					if im.Name != nil {
						local = im.Name.Name
					}
					if local == name || (local == "" && p.Imports[path] != nil && p.Imports[path].Name == name) {
						found = true
					} else {
						return false
					}
				}
			}
			if !found {
				astutil.AddNamedImport(fset, f, name, path)
			}
		}
		return true
	}
	var rewriteList func(list []ast.Stmt, fn *ast.FuncDecl, inGoDefer bool) []ast.Stmt
	var rewriteStmt func(s ast.Stmt, fn *ast.FuncDecl) []ast.Stmt
	// expression-form replacement everywhere else (function literal invoked at once)
	litReplace := func(root ast.Node) {
		astutil.Apply(root, func(c *astutil.Cursor) bool {
			switch x := c.Node().(type) {
			case *ast.GoStmt, *ast.DeferStmt:
				return false
			case *ast.CallExpr:
				if hw := wrapperTarget(x); hw != nil {
					if e := substituteWrapper(hw, x, info); e != nil && ensureSet(hw, hw.wrapImports) {
						c.Replace(e)
						n++
						return false
					}
				}
				h := target(x)
				if h == nil || !ensureImports(h) {
					return true
				}
				if h.localWrapper {
					if e := substituteWrapper(h, x, info); e != nil {
						c.Replace(e)
						n++
						return false
					}
				}
				sub, _, okSub := typeSubst(h, x, info, f, p)
				if !okSub {
					return true
				}
				lit, args := helperLiteral(h, x, info, sub)
				if lit == nil {
					return true
				}
				x.Fun = &ast.ParenExpr{X: lit}
				x.Args = args
				n++
			}
			return true
		}, nil)
	}
	// hoistCall: a helper call that is the whole controlling expression of a statement (evaluated
	// once, first) is computed into a temporary in front of it, where it can be inlined as a statement
	hoisted := 0
	hoistCall := func(c *ast.CallExpr, fn *ast.FuncDecl) ([]ast.Stmt, *ast.Ident) {
		h := target(c)
		if h == nil || h.mustLit || h.localWrapper {
			return nil, nil
		}
		if h.obj.Type().(*types.Signature).Results().Len() != 1 {
			return nil, nil
		}
		hoisted++
		name := fmt.Sprintf("inlH%d_%d", label, hoisted)
		as := &ast.AssignStmt{Lhs: []ast.Expr{ast.NewIdent(name)}, Tok: token.DEFINE, Rhs: []ast.Expr{c}}
		pre := rewriteStmt(as, fn)
		if pre == nil {
			return nil, nil
		}
		return pre, ast.NewIdent(name)
	}
	rewriteStmt = func(s ast.Stmt, fn *ast.FuncDecl) []ast.Stmt {
		var call *ast.CallExpr
		var lhs []ast.Expr
		define := false
		kind := ""
		switch x := s.(type) {
		case *ast.ExprStmt:
			if c, ok := x.X.(*ast.CallExpr); ok {
				call, kind = c, "expr"
			}
		case *ast.AssignStmt:
			if len(x.Rhs) == 1 && (x.Tok == token.DEFINE || x.Tok == token.ASSIGN) {
				if c, ok := x.Rhs[0].(*ast.CallExpr); ok {
					call, kind, lhs, define = c, "assign", x.Lhs, x.Tok == token.DEFINE
				}
			}
		case *ast.ReturnStmt:
			if len(x.Results) == 1 {
				if c, ok := x.Results[0].(*ast.CallExpr); ok {
					call, kind = c, "return"
				}
			}
		case *ast.IfStmt:
			if x.Init != nil {
				if pre := rewriteStmt(x.Init, fn); pre != nil {
					x.Init = nil
					return []ast.Stmt{&ast.BlockStmt{List: append(pre, x)}}
				}
			}
			if c, ok := x.Cond.(*ast.CallExpr); ok && x.Init == nil {
				if pre, id := hoistCall(c, fn); pre != nil {
					x.Cond = id
					return []ast.Stmt{&ast.BlockStmt{List: append(pre, x)}}
				}
			}
		case *ast.RangeStmt:
			// the range operand is evaluated once, before the first iteration
			if c, ok := x.X.(*ast.CallExpr); ok {
				if pre, id := hoistCall(c, fn); pre != nil {
					x.X = id
					return []ast.Stmt{&ast.BlockStmt{List: append(pre, x)}}
				}
			}
		case *ast.SwitchStmt:
			if c, ok := x.Tag.(*ast.CallExpr); ok && x.Init == nil {
				if pre, id := hoistCall(c, fn); pre != nil {
					x.Tag = id
					return []ast.Stmt{&ast.BlockStmt{List: append(pre, x)}}
				}
			}
		}
		if call == nil {
			return nil
		}
		h := target(call)
		if h == nil || !ensureImports(h) {
			return nil
		}
		// a deferred call of the helper runs when the helper returns; spliced into `return h()`
		// it runs when the caller returns - the same moment, before the caller's own (earlier)
		// deferred calls, as before
		if h.mustLit && (h.otherLit || kind != "return" || fn == nil) {
			return nil
		}
		if h.localWrapper {
			if e := substituteWrapper(h, call, info); e != nil {
				switch x := s.(type) {
				case *ast.ExprStmt:
					x.X = e
				case *ast.AssignStmt:
					x.Rhs[0] = e
				case *ast.ReturnStmt:
					x.Results[0] = e
				}
				n++
				return []ast.Stmt{s}
			}
		}
		sub, sig, okSub := typeSubst(h, call, info, f, p)
		if !okSub {
			return nil
		}
		nres := sig.Results().Len()
		switch kind {
		case "assign":
			if len(lhs) != nres {
				return nil
			}
		case "return":
			// the helper's results are the caller's results, one to one
			if fn == nil {
				return nil
			}
			// the enclosing function: a declaration, or a function literal (stood in for by a
			// pseudo declaration, see visit)
			var encl *types.Signature
			if cf, _ := info.Defs[fn.Name].(*types.Func); cf != nil {
				encl = cf.Type().(*types.Signature)
			} else {
				encl = litSigs[fn]
			}
			if encl == nil || encl.Results().Len() != nres {
				return nil
			}
			for i := 0; i < nres; i++ {
				if !types.Identical(encl.Results().At(i).Type(), sig.Results().At(i).Type()) {
					return nil
				}
			}
		}
		bind, ok := bindParams(h, call, info, sub)
		if !ok {
			return nil
		}
		body := substTypeParams(copyNode(h.decl.Body), sub).(*ast.BlockStmt)
		n++
		if kind == "return" {
			// inside a function literal of the caller a return would leave the literal: correct, it
			// is the literal's return statement that is being replaced
			return []ast.Stmt{&ast.BlockStmt{List: append(bind, body.List...)}}
		}
		label++
		lname := fmt.Sprintf("inlined%d_%s", label, h.decl.Name.Name)
		var pre, post []ast.Stmt
		var targets []ast.Expr
		if kind == "assign" {
			// the results go through fresh temporaries (the helper's locals may shadow the caller's
			// variables), the original assignment then takes them
			var tmps []ast.Expr
			k := 0
			for _, fl := range h.decl.Type.Results.List {
				cnt := len(fl.Names)
				if cnt == 0 {
					cnt = 1
				}
				for c := 0; c < cnt; c++ {
					name := fmt.Sprintf("inl%dR%d", label, k)
					pre = append(pre, &ast.DeclStmt{Decl: &ast.GenDecl{Tok: token.VAR, Specs: []ast.Spec{&ast.ValueSpec{Names: []*ast.Ident{ast.NewIdent(name)}, Type: substTypeParams(copyNode(fl.Type), sub).(ast.Expr)}}}})
					targets = append(targets, ast.NewIdent(name))
					tmps = append(tmps, ast.NewIdent(name))
					k++
				}
			}
			tok := token.ASSIGN
			if define {
				tok = token.DEFINE
			}
			post = append(post, &ast.AssignStmt{Lhs: lhs, Tok: tok, Rhs: tmps})
		} else {
			for i := 0; i < nres; i++ {
				targets = append(targets, ast.NewIdent("_"))
			}
		}
		var sw ast.Stmt
		if rewriteReturns(body, targets, lname) > 0 {
			sw = &ast.LabeledStmt{Label: ast.NewIdent(lname), Stmt: &ast.SwitchStmt{Body: &ast.BlockStmt{List: []ast.Stmt{
				&ast.CaseClause{Body: append(bind, body.List...)},
			}}}}
		} else {
			// a helper without any return statement: an unused label would not compile
			sw = &ast.BlockStmt{List: append(bind, body.List...)}
		}
		return append(append(pre, sw), post...)
	}
	rewriteList = func(list []ast.Stmt, fn *ast.FuncDecl, inGoDefer bool) []ast.Stmt {
		var out []ast.Stmt
		for _, s := range list {
			if rep := rewriteStmt(s, fn); rep != nil {
				out = append(out, rep...)
				continue
			}
			out = append(out, s)
		}
		return out
	}
	for _, d := range f.Decls {
		fd, ok := d.(*ast.FuncDecl)
		if !ok || fd.Body == nil {
			continue
		}
		// statement lists, innermost first is not needed: one level per pass
		var visit func(n ast.Node, encl *ast.FuncDecl)
		visit = func(n ast.Node, encl *ast.FuncDecl) {
			ast.Inspect(n, func(m ast.Node) bool {
				switch x := m.(type) {
				case *ast.BlockStmt:
					x.List = rewriteList(x.List, encl, false)
				case *ast.CaseClause:
					x.Body = rewriteList(x.Body, encl, false)
				case *ast.CommClause:
					x.Body = rewriteList(x.Body, encl, false)
				case *ast.FuncLit:
					// a return inside a literal returns from the literal: the literal is the
					// enclosing function of the tail form
					pseudo := &ast.FuncDecl{Name: ast.NewIdent("_"), Type: x.Type}
					if sg, ok := info.TypeOf(x).(*types.Signature); ok {
						litSigs[pseudo] = sg
					}
					visit(x.Body, pseudo)
					return false
				}
				return true
			})
		}
		visit(fd.Body, fd)
		litReplace(fd.Body)
	}
	return n
}

func isTypeParam(t types.Type) bool {
	_, ok := t.(*types.TypeParam)
	return ok
}

// typeSubst: for a call of a generic helper, the type arguments of the call as type expressions
// valid in file f (nil, true for a helper that is not generic).
func typeSubst(h *newHelper, call *ast.CallExpr, info *types.Info, f *ast.File, p *packages.Package) (map[string]ast.Expr, *types.Signature, bool) {
	sig := h.obj.Type().(*types.Signature)
	if len(h.tparams) == 0 {
		return nil, sig, true
	}
	fun := call.Fun
	for {
		switch x := fun.(type) {
		case *ast.IndexExpr:
			fun = x.X
			continue
		case *ast.IndexListExpr:
			fun = x.X
			continue
		case *ast.ParenExpr:
			fun = x.X
			continue
		}
		break
	}
	var id *ast.Ident
	switch x := fun.(type) {
	case *ast.Ident:
		id = x
	case *ast.SelectorExpr:
		id = x.Sel
	}
	if id == nil {
		return nil, nil, false
	}
	inst, ok := info.Instances[id]
	if !ok || inst.TypeArgs == nil || inst.TypeArgs.Len() != len(h.tparams) {
		return nil, nil, false
	}
	isig, ok := inst.Type.(*types.Signature)
	if !ok {
		return nil, nil, false
	}
	sub := map[string]ast.Expr{}
	for i, name := range h.tparams {
		e, ok := typeExprIn(inst.TypeArgs.At(i), f, p)
		if !ok {
			return nil, nil, false
		}
		sub[name] = e
	}
	return sub, isig, true
}

// typeExprIn renders a type as an expression that means the same in file f of package p (false
// if the file does not import a package the type needs, or the type mentions something that has
// no name there).
func typeExprIn(t types.Type, f *ast.File, p *packages.Package) (ast.Expr, bool) {
	if !nameableIn(t, p.Types, 0) {
		return nil, false
	}
	missing := false
	q := func(pkg *types.Package) string {
		if pkg == p.Types {
			return ""
		}
		for _, im := range f.Imports {
			if strings.Trim(im.Path.Value, `"`) == pkg.Path() {
				if im.Name != nil {
					if im.Name.Name == "." || im.Name.Name == "_" {
						missing = true
					}
					return im.Name.Name
				}
				return pkg.Name()
			}
		}
		missing = true
		return pkg.Name()
	}
	str := types.TypeString(t, q)
	if missing {
		return nil, false
	}
	e, err := parser.ParseExpr(str)
	if err != nil {
		return nil, false
	}
	stripPos(reflect.ValueOf(e))
	return e, true
}

// nameableIn: the type can be written down in package pkg (no unexported name of another package).
func nameableIn(t types.Type, pkg *types.Package, d int) bool {
	if d > 8 {
		return false
	}
	switch x := t.(type) {
	case *types.Named:
		o := x.Obj()
		if o.Pkg() != nil && o.Pkg() != pkg && !o.Exported() {
			return false
		}
		if ta := x.TypeArgs(); ta != nil {
			for i := 0; i < ta.Len(); i++ {
				if !nameableIn(ta.At(i), pkg, d+1) {
					return false
				}
			}
		}
		return true
	case *types.Pointer:
		return nameableIn(x.Elem(), pkg, d+1)
	case *types.Slice:
		return nameableIn(x.Elem(), pkg, d+1)
	case *types.Array:
		return nameableIn(x.Elem(), pkg, d+1)
	case *types.Map:
		return nameableIn(x.Key(), pkg, d+1) && nameableIn(x.Elem(), pkg, d+1)
	case *types.Chan:
		return nameableIn(x.Elem(), pkg, d+1)
	case *types.Signature:
		for _, tup := range []*types.Tuple{x.Params(), x.Results()} {
			for i := 0; i < tup.Len(); i++ {
				if !nameableIn(tup.At(i).Type(), pkg, d+1) {
					return false
				}
			}
		}
		return true
	case *types.Struct:
		for i := 0; i < x.NumFields(); i++ {
			if !nameableIn(x.Field(i).Type(), pkg, d+1) {
				return false
			}
		}
		return true
	}
	return true
}

// stripPos clears every position of a freshly parsed tree (its positions belong to no file).
func stripPos(v reflect.Value) {
	switch v.Kind() {
	case reflect.Ptr, reflect.Interface:
		if !v.IsNil() {
			stripPos(v.Elem())
		}
	case reflect.Struct:
		for i := 0; i < v.NumField(); i++ {
			fl := v.Field(i)
			if fl.Type() == reflect.TypeOf(token.NoPos) {
				if fl.CanSet() {
					fl.SetInt(0)
				}
				continue
			}
			stripPos(fl)
		}
	case reflect.Slice:
		for i := 0; i < v.Len(); i++ {
			stripPos(v.Index(i))
		}
	}
}

// substTypeParams replaces the type parameter names in a copied tree by the type arguments.
func substTypeParams(n ast.Node, sub map[string]ast.Expr) ast.Node {
	if len(sub) == 0 || n == nil {
		return n
	}
	return astutil.Apply(n, func(c *astutil.Cursor) bool {
		switch x := c.Node().(type) {
		case *ast.SelectorExpr:
			// only the operand, never the selected name
			x.X = substTypeParams(x.X, sub).(ast.Expr)
			return false
		case *ast.KeyValueExpr:
			if _, isId := x.Key.(*ast.Ident); isId {
				x.Value = substTypeParams(x.Value, sub).(ast.Expr)
				return false
			}
		case *ast.Ident:
			if e, ok := sub[x.Name]; ok {
				c.Replace(copyNode(e))
				return false
			}
		}
		return true
	}, nil)
}

// bindParams: `p, q := P(a), Q(b)` (receiver first), evaluated in the caller's scope.
func bindParams(h *newHelper, call *ast.CallExpr, info *types.Info, sub map[string]ast.Expr) ([]ast.Stmt, bool) {
	var names []ast.Expr
	var vals []ast.Expr
	var uses []ast.Stmt
	add := func(name string, typ ast.Expr, val ast.Expr) {
		if name == "" || name == "_" {
			names = append(names, ast.NewIdent("_"))
			vals = append(vals, val)
			return
		}
		names = append(names, ast.NewIdent(name))
		if typ != nil {
			val = &ast.CallExpr{Fun: &ast.ParenExpr{X: substTypeParams(copyNode(typ), sub).(ast.Expr)}, Args: []ast.Expr{val}}
		}
		vals = append(vals, val)
		uses = append(uses, &ast.AssignStmt{Lhs: []ast.Expr{ast.NewIdent("_")}, Tok: token.ASSIGN, Rhs: []ast.Expr{ast.NewIdent(name)}})
	}
	if h.decl.Recv != nil {
		sel, ok := call.Fun.(*ast.SelectorExpr)
		if !ok {
			return nil, false
		}
		selInfo := info.Selections[sel]
		if selInfo == nil || selInfo.Kind() != types.MethodVal || len(selInfo.Index()) != 1 {
			return nil, false // promoted through embedding: not handled
		}
		recv := copyNode(sel.X).(ast.Expr)
		sig := h.obj.Type().(*types.Signature)
		_, wantPtr := sig.Recv().Type().(*types.Pointer)
		_, havePtr := info.TypeOf(sel.X).Underlying().(*types.Pointer)
		switch {
		case wantPtr && !havePtr:
			recv = &ast.UnaryExpr{Op: token.AND, X: recv}
		case !wantPtr && havePtr:
			recv = &ast.StarExpr{X: recv}
		}
		rname := ""
		if len(h.decl.Recv.List[0].Names) == 1 {
			rname = h.decl.Recv.List[0].Names[0].Name
		}
		add(rname, nil, recv)
	}
	i := 0
	// f(g()): the results of g are the parameters, in order
	if h.decl.Recv == nil && h.decl.Type.Params != nil && len(call.Args) == 1 {
		if tup, ok := info.TypeOf(call.Args[0]).(*types.Tuple); ok && tup.Len() > 1 {
			var decls []ast.Stmt
			var lhs []ast.Expr
			var used []ast.Stmt
			for _, fl := range h.decl.Type.Params.List {
				if len(fl.Names) == 0 {
					lhs = append(lhs, ast.NewIdent("_"))
					continue
				}
				for _, nm := range fl.Names {
					if nm.Name == "_" {
						lhs = append(lhs, ast.NewIdent("_"))
						continue
					}
					decls = append(decls, &ast.DeclStmt{Decl: &ast.GenDecl{Tok: token.VAR, Specs: []ast.Spec{&ast.ValueSpec{Names: []*ast.Ident{ast.NewIdent(nm.Name)}, Type: substTypeParams(copyNode(fl.Type), sub).(ast.Expr)}}}})
					lhs = append(lhs, ast.NewIdent(nm.Name))
					used = append(used, &ast.AssignStmt{Lhs: []ast.Expr{ast.NewIdent("_")}, Tok: token.ASSIGN, Rhs: []ast.Expr{ast.NewIdent(nm.Name)}})
				}
			}
			if len(lhs) != tup.Len() {
				return nil, false
			}
			decls = append(decls, &ast.AssignStmt{Lhs: lhs, Tok: token.ASSIGN, Rhs: []ast.Expr{copyNode(call.Args[0]).(ast.Expr)}})
			return append(decls, used...), true
		}
	}
	if h.decl.Type.Params != nil {
		for _, fl := range h.decl.Type.Params.List {
			if len(fl.Names) == 0 {
				if i >= len(call.Args) {
					return nil, false
				}
				add("_", nil, copyNode(call.Args[i]).(ast.Expr))
				i++
				continue
			}
			for _, nm := range fl.Names {
				if i >= len(call.Args) {
					return nil, false
				}
				add(nm.Name, fl.Type, copyNode(call.Args[i]).(ast.Expr))
				i++
			}
		}
	}
	if i != len(call.Args) {
		return nil, false // f(g()) multi-value forwarding
	}
	if len(names) == 0 {
		return nil, true
	}
	allBlank := true
	for _, n := range names {
		if n.(*ast.Ident).Name != "_" {
			allBlank = false
		}
	}
	tok := token.DEFINE
	if allBlank {
		tok = token.ASSIGN
	}
	return append([]ast.Stmt{&ast.AssignStmt{Lhs: names, Tok: tok, Rhs: vals}}, uses...), true
}

// helperLiteral: the helper as a function literal (receiver as first parameter) and the arguments.
func helperLiteral(h *newHelper, call *ast.CallExpr, info *types.Info, sub map[string]ast.Expr) (*ast.FuncLit, []ast.Expr) {
	ft := copyNode(h.decl.Type).(*ast.FuncType)
	ft.TypeParams = nil
	ft = substTypeParams(ft, sub).(*ast.FuncType)
	args := call.Args
	if h.decl.Recv != nil {
		sel, ok := call.Fun.(*ast.SelectorExpr)
		if !ok {
			return nil, nil
		}
		selInfo := info.Selections[sel]
		if selInfo == nil || selInfo.Kind() != types.MethodVal || len(selInfo.Index()) != 1 {
			return nil, nil
		}
		recv := ast.Expr(sel.X)
		sig := h.obj.Type().(*types.Signature)
		_, wantPtr := sig.Recv().Type().(*types.Pointer)
		_, havePtr := info.TypeOf(sel.X).Underlying().(*types.Pointer)
		switch {
		case wantPtr && !havePtr:
			recv = &ast.UnaryExpr{Op: token.AND, X: recv}
		case !wantPtr && havePtr:
			recv = &ast.StarExpr{X: recv}
		}
		rf := copyNode(h.decl.Recv.List[0]).(*ast.Field)
		if len(rf.Names) == 0 {
			rf.Names = []*ast.Ident{ast.NewIdent("_")}
		}
		ft.Params.List = append([]*ast.Field{rf}, ft.Params.List...)
		args = append([]ast.Expr{recv}, args...)
	}
	return &ast.FuncLit{Type: ft, Body: substTypeParams(copyNode(h.decl.Body), sub).(*ast.BlockStmt)}, args
}

// rewriteReturns replaces `return v, e` by `{ targets = v, e; break label }` (not inside literals).
func rewriteReturns(body *ast.BlockStmt, targets []ast.Expr, label string) int {
	count := 0
	mk := func(r *ast.ReturnStmt) ast.Stmt {
		var list []ast.Stmt
		if len(r.Results) > 0 {
			lhs := make([]ast.Expr, len(targets))
			for i, t := range targets {
				lhs[i] = copyNode(t).(ast.Expr)
			}
			list = append(list, &ast.AssignStmt{Lhs: lhs, Tok: token.ASSIGN, Rhs: r.Results})
		}
		list = append(list, &ast.BranchStmt{Tok: token.BREAK, Label: ast.NewIdent(label)})
		return &ast.BlockStmt{List: list}
	}
	astutil.Apply(body, func(c *astutil.Cursor) bool {
		switch x := c.Node().(type) {
		case *ast.FuncLit:
			return false
		case *ast.ReturnStmt:
			count++
			c.Replace(mk(x))
			return false
		}
		return true
	}, nil)
	return count
}

// copyNode deep-copies a syntax tree (positions kept, deprecated object links dropped).
func copyNode(n ast.Node) ast.Node {
	if n == nil {
		return nil
	}
	return deepCopy(reflect.ValueOf(n)).Interface().(ast.Node)
}

func deepCopy(v reflect.Value) reflect.Value {
	switch v.Kind() {
	case reflect.Ptr:
		if v.IsNil() {
			return v
		}
		switch v.Interface().(type) {
		case *ast.Object, *ast.Scope:
			return reflect.Zero(v.Type())
		}
		n := reflect.New(v.Elem().Type())
		n.Elem().Set(deepCopy(v.Elem()))
		return n
	case reflect.Interface:
		if v.IsNil() {
			return v
		}
		c := deepCopy(v.Elem())
		n := reflect.New(v.Type()).Elem()
		n.Set(c)
		return n
	case reflect.Struct:
		n := reflect.New(v.Type()).Elem()
		for i := 0; i < v.NumField(); i++ {
			if n.Field(i).CanSet() {
				n.Field(i).Set(deepCopy(v.Field(i)))
			}
		}
		return n
	case reflect.Slice:
		if v.IsNil() {
			return v
		}
		n := reflect.MakeSlice(v.Type(), v.Len(), v.Len())
		for i := 0; i < v.Len(); i++ {
			n.Index(i).Set(deepCopy(v.Index(i)))
		}
		return n
	}
	return v
}

// substituteWrapper: the wrapper's return expression with its parameters (and receiver) replaced
// by the call's arguments.
func substituteWrapper(h *newHelper, call *ast.CallExpr, info *types.Info) ast.Expr {
	ret := h.decl.Body.List[0].(*ast.ReturnStmt)
	hinfo := h.pkg.TypesInfo
	sig := h.obj.Type().(*types.Signature)
	repl := map[types.Object]ast.Expr{}
	simple := func(e ast.Expr) bool {
		switch x := e.(type) {
		case *ast.Ident, *ast.BasicLit:
			return true
		case *ast.SelectorExpr:
			_, ok := x.X.(*ast.Ident)
			return ok
		case *ast.UnaryExpr:
			_, ok := x.X.(*ast.Ident)
			return ok
		case *ast.StarExpr:
			_, ok := x.X.(*ast.Ident)
			return ok
		}
		return false
	}
	if sig.Recv() != nil {
		sel, ok := call.Fun.(*ast.SelectorExpr)
		if !ok {
			return nil
		}
		si := info.Selections[sel]
		if si == nil || si.Kind() != types.MethodVal || len(si.Index()) != 1 || !simple(sel.X) {
			return nil
		}
		if len(h.decl.Recv.List[0].Names) == 1 {
			repl[hinfo.Defs[h.decl.Recv.List[0].Names[0]]] = sel.X
		}
	}
	if len(call.Args) != sig.Params().Len() {
		return nil
	}
	i := 0
	for _, fl := range h.decl.Type.Params.List {
		for _, nm := range fl.Names {
			if !simple(call.Args[i]) {
				// an argument with possible effects is fine if the parameter is used exactly once
				cnt := 0
				ast.Inspect(ret.Results[0], func(n ast.Node) bool {
					if id, ok := n.(*ast.Ident); ok && hinfo.Uses[id] == hinfo.Defs[nm] {
						cnt++
					}
					return true
				})
				if cnt != 1 {
					return nil
				}
			}
			repl[hinfo.Defs[nm]] = call.Args[i]
			i++
		}
		if len(fl.Names) == 0 {
			i++
		}
	}
	// copy with substitution: identifiers are matched in the original tree, so walk both
	var subst func(orig ast.Node) ast.Node
	subst = func(orig ast.Node) ast.Node {
		if id, ok := orig.(*ast.Ident); ok {
			if o := hinfo.Uses[id]; o != nil {
				if r, ok := repl[o]; ok {
					return &ast.ParenExpr{X: copyNode(r).(ast.Expr)}
				}
			}
		}
		return nil
	}
	out := copyWithSubst(ret.Results[0], subst)
	e, _ := out.(ast.Expr)
	return e
}

// copyWithSubst deep-copies n, replacing every node for which f returns non-nil.
func copyWithSubst(n ast.Node, f func(ast.Node) ast.Node) ast.Node {
	var rec func(v reflect.Value) reflect.Value
	rec = func(v reflect.Value) reflect.Value {
		switch v.Kind() {
		case reflect.Interface:
			if v.IsNil() {
				return v
			}
			if node, ok := v.Interface().(ast.Node); ok {
				if r := f(node); r != nil {
					nv := reflect.New(v.Type()).Elem()
					nv.Set(reflect.ValueOf(r))
					return nv
				}
			}
			c := rec(v.Elem())
			nv := reflect.New(v.Type()).Elem()
			nv.Set(c)
			return nv
		case reflect.Ptr:
			if v.IsNil() {
				return v
			}
			switch v.Interface().(type) {
			case *ast.Object, *ast.Scope:
				return reflect.Zero(v.Type())
			}
			nv := reflect.New(v.Elem().Type())
			nv.Elem().Set(rec(v.Elem()))
			return nv
		case reflect.Struct:
			nv := reflect.New(v.Type()).Elem()
			for i := 0; i < v.NumField(); i++ {
				if nv.Field(i).CanSet() {
					nv.Field(i).Set(rec(v.Field(i)))
				}
			}
			return nv
		case reflect.Slice:
			if v.IsNil() {
				return v
			}
			nv := reflect.MakeSlice(v.Type(), v.Len(), v.Len())
			for i := 0; i < v.Len(); i++ {
				nv.Index(i).Set(rec(v.Index(i)))
			}
			return nv
		}
		return v
	}
	if r := f(n); r != nil {
		return r
	}
	return rec(reflect.ValueOf(n)).Interface().(ast.Node)
}
