package main

import (
	"regexp"
	"strconv"
	"strings"

	"golang.org/x/tools/go/ssa"
)

var (
	keyShapeSprintf2 = regexp.MustCompile(`^fmt\.Sprintf\("%[sv]%[sv]",("(?:[^"\\]|\\.)*"),\$0\)$`)
	keyShapeSprintf1 = regexp.MustCompile(`^fmt\.Sprintf\(("(?:[^"\\%]|\\.)*)%[sv]",\$0\)$`)
	keyShapeConcat   = regexp.MustCompile(`^\(?("(?:[^"\\]|\\.)*") ?\+ ?\$0\)?$`)
)

// c14KeyShape: the catalogue key of a table is the constant key prefix followed by the name,
// byte for byte, and the listing globs exactly that prefix.
func c14KeyShape(w *World, r *Report) {
	ob := r.Ob("C14.n", "n-key-is-prefix-plus-name", "the function that maps a table name to its catalogue key returns the constant key prefix concatenated with the name unchanged (prefix + name, or Sprintf of the two) - an injective map whose image, for names without '/', is exactly what the listing's glob `prefix*` matches; the listing (Manager.getTables) reads the store with that same prefix followed by `*`", "a key function that normalises the name (path.Join cleans `.` and `..`, trims, changes case) maps two names to one key or a name to a key outside the listed directory: the table is created and found by name but invisible to listing and reconciliation, which then stops its shard as not catalogued")
	fn := w.Func("storage/table", "storedTableName")
	if fn == nil || len(fn.Blocks) == 0 || len(fn.Params) != 1 {
		ob.Undecided("anchor", "storedTableName(name) not found")
		return
	}
	prefix := ""
	n := 0
	eachInstr(fn, func(in ssa.Instruction) {
		ret, ok := in.(*ssa.Return)
		if !ok || len(ret.Results) != 1 {
			return
		}
		n++
		e := Expr(retVal(ret, 0))
		ob.Site(ret.Pos(), "catalogue key = "+e)
		var m []string
		for _, re := range []*regexp.Regexp{keyShapeSprintf2, keyShapeConcat} {
			if m = re.FindStringSubmatch(e); m != nil {
				break
			}
		}
		p := ""
		if m != nil {
			p, _ = strconv.Unquote(m[1])
		} else if m = keyShapeSprintf1.FindStringSubmatch(e); m != nil {
			p, _ = strconv.Unquote(m[1] + `"`)
		}
		if m == nil || p == "" {
			ob.Violate("key-not-prefix-plus-name", ret.Pos(), "the catalogue key is `"+e+"`, not the constant key prefix followed by the name unchanged: names are normalised or mapped outside the listed directory")
			return
		}
		if prefix != "" && prefix != p {
			ob.Violate("two-prefixes", ret.Pos(), "the key function uses the prefixes `"+prefix+"` and `"+p+"`")
		}
		prefix = p
	})
	if n == 0 {
		ob.Undecided("shape", "the key function has no return")
		return
	}
	if prefix == "" {
		return
	}
	if !strings.HasSuffix(prefix, "/") {
		ob.Violate("prefix-not-a-directory", fn.Pos(), "the key prefix `"+prefix+"` does not end with the path separator: the listing glob does not select a directory")
	}
	gt := w.Func("storage/table", "Manager.getTables")
	if gt == nil {
		ob.Undecided("anchor/listing", "Manager.getTables not found")
		return
	}
	nl := 0
	for _, f := range withClosures(gt) {
		eachInstr(f, func(in ssa.Instruction) {
			c := callOf(in)
			if c == nil || !c.IsInvoke() || c.Method.Name() != "GetAll" || len(c.Args) != 1 {
				return
			}
			nl++
			e := Expr(c.Args[0])
			ob.Site(in.Pos(), "the listing reads "+e)
			if e != strconv.Quote(prefix+"*") {
				ob.Violate("listing-other-directory", in.Pos(), "the listing reads `"+e+"`, the keys are written under `"+prefix+"`")
			}
		})
	}
	if nl == 0 {
		ob.Violate("listing-reads-nothing", gt.Pos(), "Manager.getTables does not read the store with a pattern")
	}
	ob.NeedFloor(2)
}
